#!/usr/bin/env python3
"""Writes .build/skew/overlay.json: a `go build -overlay` file that replaces GOROOT/src/time/time.go by a copy in which
time.Now() adds VERIF_CLOCK_SKEW_SEC seconds to the WALL clock reading (the monotonic reading is untouched, so
durations, timers and deadlines keep working).  Used only for the `vh-skew` follower binary of the C01 check: a replica
that replays the recorded blocks while its machine clock is ten years off must produce the same bytes.
Nothing in /repo and nothing in the installed toolchain is modified; the overlay exists only in the build command."""
import json, os, subprocess, sys

here = os.path.dirname(os.path.abspath(__file__))
out = os.path.join(here, ".build", "skew")
os.makedirs(out, exist_ok=True)
goroot = subprocess.check_output(["go", "env", "GOROOT"], text=True).strip()
path = os.path.join(goroot, "src", "time", "time.go")
src = open(path).read()
needle = "func Now() Time {\n\tsec, nsec, mono := now()\n"
imp = 'import (\n\t"errors"\n'
if src.count(needle) != 1 or src.count(imp) != 1:
    sys.stderr.write("mkskew: time.go of this toolchain does not have the expected shape\n")
    sys.exit(2)
src = src.replace(needle, needle + "\tsec += verifSkew\n")
src = src.replace(imp, imp + '\t"syscall"\n')
src += '''
// verifSkew shifts the wall clock (never the monotonic clock) by VERIF_CLOCK_SKEW_SEC seconds.
var verifSkew = func() int64 {
	s, ok := syscall.Getenv("VERIF_CLOCK_SKEW_SEC")
	if !ok || s == "" {
		return 0
	}
	neg := false
	if s[0] == '-' {
		neg = true
		s = s[1:]
	}
	var n int64
	for i := 0; i < len(s); i++ {
		if s[i] < '0' || s[i] > '9' {
			return 0
		}
		n = n*10 + int64(s[i]-'0')
	}
	if neg {
		n = -n
	}
	return n
}()
'''
dst = os.path.join(out, "time_skew.src")
if not os.path.exists(dst) or open(dst).read() != src:
    open(dst, "w").write(src)
ov = os.path.join(out, "overlay.json")
json.dump({"Replace": {path: dst}}, open(ov, "w"))
print(ov)
