#!/usr/bin/env python3
"""genfloors.py: derives coverage floors from the committed seed-1 quick evidence: every per-clause counter
(*.evals, lab.inputs, c20.operations ...) that reached at least 100 must reach 10% of that value in any later run,
otherwise the check reports INCONCLUSIVE. Small counters get no floor (they vary with the seed)."""
import json, glob, os, re
root = os.path.dirname(os.path.abspath(__file__))
meta = json.load(open(os.path.join(root, "checkmeta.json")))
floors = {}
for f in sorted(glob.glob(os.path.join(root, "evidence", "C*.json"))):
    ev = json.load(open(f))
    if ev.get("tier") != "quick":
        continue
    prop = ev["property_id"]
    fl = {}
    for k, v in ev["coverage"]["monitor_counters"].items():
        if not (k.endswith(".evals") or k in ("lab.inputs", "c20.operations", "c20.median-calls", "c20.linearizability-checks", "c06.calls", "c20.first-update.instances", "c20.atomicity.reads", "c20.ingest.requests")):
            continue
        if prop.lower() not in k and not k.startswith(("lab.", "c12lab", "c01")):
            # counters of advisory clauses of other properties do not gate this property
            if not (prop in ("C11", "C12", "C13") and k.startswith(("c11.", "c12.", "c13."))):
                continue
        if v >= 100:
            fl[k] = int(v * 0.1)
    fl["__buckets__"] = max(2, int(ev["coverage"]["distinct_nontrivial"] * 0.25))
    fl["__evaluations__"] = int(ev["coverage"]["evaluations"] * 0.25)
    floors[prop] = {"quick": fl, "thorough": fl}
# clauses whose counters are small by nature but must not be zero
for prop, extra in {"C14": {"c14.claim.evals": 8}, "C16": {"c16.contract-step.evals": 8, "c16.checkpoint.evals": 10}, "C12": {"c12.round-fee.evals": 2}, "C08": {"c08.flag.evals": 6},
                    "C10": {"c10.unjail.evals": 5}, "C05": {"c05.record.evals": 8}, "C20": {"c20.linearizability-checks": 20}}.items():
    if prop in floors:
        floors[prop]["quick"].update(extra)
meta["floors"] = floors
json.dump(meta, open(os.path.join(root, "checkmeta.json"), "w"), indent=1)
for p, f in floors.items():
    print(p, f["quick"])
