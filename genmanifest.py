#!/usr/bin/env python3
"""Regenerates MANIFEST.json from checkmeta.json (single source for per-property texts)."""
import json, os
V = os.path.dirname(os.path.abspath(__file__))
meta = json.load(open(os.path.join(V, "checkmeta.json")))
props = [json.loads(l) for l in open(os.path.join(V, "properties.jsonl"))]
checks, na = [], []
for p in props:
    pid = p["id"]
    m = meta["checks"].get(pid)
    if not m or not m.get("claimed"):
        na.append({"property_id": pid, "reason": (m or {}).get("reason", "check not built yet (work in progress); the property is meant to be decided by runtime monitoring, see DESIGN.md section 4")})
        continue
    checks.append({
        "property_id": pid,
        "quick_cmd": "./check %s --tier quick" % pid,
        "thorough_cmd": "./check %s --tier thorough" % pid,
        "evidence_file": "/verif/evidence/%s.json" % pid,
        "replay_cmd_template": "./check %s --replay {path}" % pid,
        "engine": m["engine"],
        "level_claimed": {"category": "exploration", "text": m["level_text"], "design_ref": "DESIGN.md section 4, " + pid},
        "level_note": m["level_note"],
        "technique": m["technique"],
    })
man = {
    "version": 1,
    "setup_cmd": "./setup.sh",
    "hooks": {
        "guard": "verif",
        "enable": "go build -tags verif (every harness build passes the tag; no guarded file exists in /repo at present - all observation points are exported SDK/app setters, see DESIGN.md section 3)",
        "baseline_off_cmd": "for m in . e2e; do (cd /repo/$m && GOFLAGS=-mod=mod go test -json -vet=off -count=1 -timeout 25m ./...); done",
        "source_commits": [],
        "add_only": True,
    },
    "engines": [
        {"name": "chainsim", "path": "harness/cmd/vh (run)", "serves_properties": [c["property_id"] for c in checks if c["engine"] == "chainsim"], "kind_free_text": "real app.App driven through ABCI in-process by a seeded hostile workload generator; monitors at phase boundaries and after every tx"},
        {"name": "keeperlab", "path": "harness/cmd/vh (lab)", "serves_properties": [c["property_id"] for c in checks if c["engine"] == "keeperlab"], "kind_free_text": "real keepers on branched state, generated inputs, definition-level oracles"},
        {"name": "pricelab", "path": "harness/cmd/pricelab", "serves_properties": [c["property_id"] for c in checks if c["engine"] == "pricelab"], "kind_free_text": "goroutine swarm on the price cache under -race, porcupine linearizability checking"},
    ],
    "checks": checks,
    "not_applicable": na,
    "notes": "All checks are runtime monitors over executions of the real code; see DESIGN.md. known_findings.json lists genuine defects (fixed ones with their fix: commit).",
}
json.dump(man, open(os.path.join(V, "MANIFEST.json"), "w"), indent=1)
print("claimed:", [c["property_id"] for c in checks], "not claimed:", [n["property_id"] for n in na])
