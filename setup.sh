#!/bin/bash
# offline build of the harness binaries (warms the Go build cache); nothing is fetched
set -e
cd "$(dirname "$0")"
export GOFLAGS=-mod=mod GOPROXY=off GOSUMDB=off GOTOOLCHAIN=local
./mkmod.sh
mkdir -p .build evidence replays
(cd harness && go build -tags verif -o ../.build/vh ./cmd/vh)
if [ -d harness/cmd/pricelab ]; then (cd harness && go build -race -tags verif -o ../.build/pricelab-race ./cmd/pricelab); fi
echo setup done
