#!/bin/bash
# regenerate harness/go.mod + go.sum from the repository's own module files
set -e
REPO="${VERIF_REPO:-/repo}"
H="$(cd "$(dirname "$0")" && pwd)/harness"
export GOFLAGS=-mod=mod GOPROXY=off GOSUMDB=off GOTOOLCHAIN=local
cd "$H"
cp "$REPO/go.mod" go.mod
cp "$REPO/go.sum" go.sum
sed -i 's#^module github.com/tellor-io/layer$#module verif/harness#' go.mod
go mod edit -require=github.com/tellor-io/layer@v0.0.0 -replace=github.com/tellor-io/layer="$REPO"
go mod edit -require=github.com/anishathalye/porcupine@v1.3.0
