#!/bin/bash
# sweep.sh <seed> [tier] [props...]  — runs the registered checks one after the other; for seeds other than 1 the
# evidence/replays go to .build/sweep-<seed>/ so that the committed evidence (seed 1) is not overwritten
cd "$(dirname "$0")"
SEED=${1:-1}; TIER=${2:-quick}; shift; shift
PROPS=${@:-C01 C02 C03 C04 C05 C06 C07 C08 C09 C10 C11 C12 C13 C14 C15 C16 C17 C18 C19 C20}
OUT=.build/sweep-$SEED-$TIER; mkdir -p $OUT
for p in $PROPS; do
  if [ "$SEED" = 1 ] && [ "$TIER" = quick ]; then
    VERIF_SEED=$SEED ./check $p --tier $TIER > $OUT/$p.out 2>&1
  else
    VERIF_OUTROOT=$(readlink -f $OUT) VERIF_SEED=$SEED ./check $p --tier $TIER > $OUT/$p.out 2>&1
  fi
  echo "$p exit=$? $(grep -c '^VIOLATION' $OUT/$p.out) violations $(grep -c '^KNOWN-FINDING' $OUT/$p.out) known $(grep -c '^INCONCLUSIVE' $OUT/$p.out) inconclusive :: $(grep '^\[check\] C' $OUT/$p.out | tail -1 | cut -c1-160)"
done
