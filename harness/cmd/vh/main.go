package main

import (
	"encoding/json"
	"flag"
	"fmt"
	"github.com/cosmos/cosmos-sdk/telemetry"
	"os"
	"strconv"
	"strings"
	"time"

	"verif/harness/sim"
)

// vh run -prop C02 -tier quick -seed 1 -from 0 -to 4 -out file.jsonl
func main() {
	if len(os.Args) < 2 {
		fmt.Println("usage: vh run|replay ...")
		os.Exit(2)
	}
	switch os.Args[1] {
	case "run":
		run(os.Args[2:], false)
	case "lab":
		run(os.Args[2:], true)
	case "plan":
		plan(os.Args[2:])
	case "det":
		det(os.Args[2:])
	case "follow":
		follow(os.Args[2:])
	default:
		fmt.Println("unknown command")
		os.Exit(2)
	}
}

func plan(args []string) {
	fs := flag.NewFlagSet("plan", flag.ExitOnError)
	prop := fs.String("prop", "", "property")
	tier := fs.String("tier", "quick", "tier")
	fs.Parse(args)
	if l := sim.Labs[*prop]; l != nil {
		json.NewEncoder(os.Stdout).Encode(map[string]int{"cases": l.Batches[*tier], "blocks": l.Inputs[*tier]})
		return
	}
	d := sim.Props[*prop]
	if d == nil {
		fmt.Println("{}")
		return
	}
	json.NewEncoder(os.Stdout).Encode(map[string]int{"cases": d.Cases[*tier], "blocks": d.Blocks[*tier]})
}

func run(args []string, lab bool) {
	fs := flag.NewFlagSet("run", flag.ExitOnError)
	prop := fs.String("prop", "C02", "property")
	tier := fs.String("tier", "quick", "tier")
	seed := fs.Int64("seed", 1, "seed")
	from := fs.Int("from", 0, "first case")
	to := fs.Int("to", 1, "one past last case")
	casesFlag := fs.String("cases", "", "comma separated case numbers (overrides from/to)")
	only := fs.Int("only", -1, "run exactly this case number (replay)")
	trace := fs.String("trace", "", "from:to heights to trace on stderr (debugging)")
	blocks := fs.Int("blocks", 0, "override blocks per case")
	out := fs.String("out", "", "output jsonl (default stdout)")
	fs.Parse(args)
	d := sim.Props[*prop]
	if d == nil && !lab {
		fmt.Fprintln(os.Stderr, "unknown property", *prop)
		os.Exit(2)
	}
	if lab && sim.Labs[*prop] == nil {
		fmt.Fprintln(os.Stderr, "unknown lab property", *prop)
		os.Exit(2)
	}
	if *trace != "" {
		var a, b int64
		fmt.Sscanf(*trace, "%d:%d", &a, &b)
		sim.DebugTracer = &sim.Tracer{From: a, To: b}
	}
	w := os.Stdout
	if *out != "" {
		f, err := os.Create(*out)
		if err != nil {
			panic(err)
		}
		defer f.Close()
		w = f
	}
	enc := json.NewEncoder(w)
	var list []int
	for i := *from; i < *to; i++ {
		list = append(list, i)
	}
	if *casesFlag != "" {
		list = nil
		for _, s := range strings.Split(*casesFlag, ",") {
			n, err := strconv.Atoi(s)
			if err == nil {
				list = append(list, n)
			}
		}
	}
	if *only >= 0 {
		list = []int{*only}
	}
	for _, i := range list {
		var res sim.CaseResult
		fmt.Fprintf(os.Stderr, "CASE-START %s seed=%d case=%d\n", *prop, *seed, i)
		if lab {
			res = sim.RunLabBatch(sim.CaseSpec{Prop: *prop, Tier: *tier, Seed: *seed, Case: i})
		} else {
			b := d.Blocks[*tier]
			if *blocks > 0 {
				b = *blocks
			}
			res = sim.RunCase(sim.CaseSpec{Prop: *prop, Tier: *tier, Seed: *seed, Case: i, Blocks: b})
		}
		enc.Encode(res)
		fmt.Fprintf(os.Stderr, "CASE-END %s case=%d blocks=%d dead=%v viol=%d\n", *prop, i, res.BlocksRun, res.Dead, len(res.Violations))
	}
}

func follow(args []string) {
	fs := flag.NewFlagSet("follow", flag.ExitOnError)
	file := fs.String("file", "", "recorded requests")
	mingas := fs.String("mingas", "", "minimum gas prices")
	iavl := fs.Int("iavl", 0, "iavl cache size")
	pruning := fs.String("pruning", "", "pruning")
	db := fs.String("db", "", "db backend")
	simulate := fs.Bool("simulate", false, "simulate every transaction before executing its block")
	restart := fs.Int("restart", 0, "restart the application from its database every N blocks (goleveldb)")
	telem := fs.Bool("telemetry", false, "run with telemetry enabled (app.toml [telemetry] enabled = true)")
	fs.Parse(args)
	if *telem {
		if _, err := telemetry.New(telemetry.Config{Enabled: true, ServiceName: "vh", EnableHostnameLabel: false, PrometheusRetentionTime: 60}); err != nil {
			fmt.Fprintln(os.Stderr, "follow: telemetry:", err)
			os.Exit(1)
		}
		if !telemetry.IsTelemetryEnabled() {
			fmt.Fprintln(os.Stderr, "follow: telemetry not enabled")
			os.Exit(1)
		}
	}
	if os.Getenv("VERIF_CLOCK_SKEW_SEC") != "" {
		fmt.Printf("WALLCLOCK %d\n", time.Now().Unix()) // lets the leader see that this replica's clock really is shifted
	}
	if err := sim.Follow(*file, sim.AppOpts{MinGasPrice: *mingas, IAVLCache: *iavl, Pruning: *pruning}, *db, *simulate, *restart); err != nil {
		fmt.Fprintln(os.Stderr, "follow:", err)
		os.Exit(1)
	}
}

func det(args []string) {
	fs := flag.NewFlagSet("det", flag.ExitOnError)
	tier := fs.String("tier", "quick", "tier")
	_ = fs.String("prop", "C01", "property")
	seed := fs.Int64("seed", 1, "seed")
	casesFlag := fs.String("cases", "", "comma separated case numbers")
	only := fs.Int("only", -1, "run exactly this case")
	out := fs.String("out", "", "output jsonl")
	fs.Parse(args)
	self, _ := os.Executable()
	if _, err := os.Stat(self + "-skew"); err == nil {
		sim.SkewSelf = self + "-skew"
	}
	race := ""
	if _, err := os.Stat(self + "-race"); err == nil {
		race = self + "-race"
	}
	var list []int
	for _, s := range strings.Split(*casesFlag, ",") {
		if n, err := strconv.Atoi(s); err == nil {
			list = append(list, n)
		}
	}
	if *only >= 0 {
		list = []int{*only}
	}
	w := os.Stdout
	if *out != "" {
		f, err := os.Create(*out)
		if err != nil {
			panic(err)
		}
		defer f.Close()
		w = f
	}
	dir, err := os.MkdirTemp("", "vh-det-")
	if err != nil {
		panic(err)
	}
	defer os.RemoveAll(dir)
	enc := json.NewEncoder(w)
	d := sim.Props["C01"]
	for _, i := range list {
		fmt.Fprintf(os.Stderr, "CASE-START C01 seed=%d case=%d\n", *seed, i)
		res := sim.RunDetCase(sim.CaseSpec{Prop: "C01", Tier: *tier, Seed: *seed, Case: i, Blocks: d.Blocks[*tier]}, self, race, dir)
		enc.Encode(res)
		fmt.Fprintf(os.Stderr, "CASE-END C01 case=%d blocks=%d viol=%d\n", i, res.BlocksRun, len(res.Violations))
	}
}
