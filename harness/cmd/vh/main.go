package main

import (
	"flag"
	"fmt"
	"os"
	"time"

	"verif/harness/sim"
)

func main() {
	seed := flag.Int64("seed", 1, "seed")
	blocks := flag.Int("blocks", 20, "blocks")
	flag.Parse()
	w := sim.NewWorld(sim.DefaultWorldCfg(*seed))
	c := sim.NewChain(w, sim.AppOpts{})
	defer c.Close()
	t0 := time.Now()
	for i := 0; i < *blocks; i++ {
		br := c.NextBlock(sim.BlockPlan{Gap: 6 * time.Second})
		if br.Err != nil {
			fmt.Println("ERR", br.Height, br.Phase, br.Err, br.Panic)
			os.Exit(1)
		}
		fmt.Printf("h=%d apphash=%x txs=%d valupd=%d\n", br.Height, br.AppHash[:6], len(br.Txs), len(br.Res.ValidatorUpdates))
	}
	fmt.Println("ok", time.Since(t0))
}
