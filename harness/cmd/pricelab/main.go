// pricelab: engine C of the verification harness (property C20). Built with -race.
// A swarm of goroutines hammers one MarketToExchangePrices with updates and reads; the history is recorded at the
// client boundary and checked for linearizability against the sequential specification with porcupine.
// lib.Median is compared with a big-integer reference (exhaustive boundary grid + random).
package main

import (
	"context"
	"encoding/hex"

	"encoding/json"
	"flag"
	"fmt"
	"github.com/cosmos/cosmos-sdk/client"
	daemonserver "github.com/tellor-io/layer/daemons/server"
	"github.com/tellor-io/layer/daemons/server/median"
	"math/big"
	"math/rand"
	"os"
	"runtime"
	"sort"
	"strconv"
	"strings"
	"sync"
	"sync/atomic"
	"time"

	sdklog "cosmossdk.io/log"
	"github.com/anishathalye/porcupine"
	clienttypes "github.com/tellor-io/layer/daemons/pricefeed/client/types"
	servertypes "github.com/tellor-io/layer/daemons/server/types"
	pricefeedtypes "github.com/tellor-io/layer/daemons/server/types/pricefeed"
	"github.com/tellor-io/layer/lib"
)

type CaseSpec struct {
	Prop    string `json:"prop"`
	Tier    string `json:"tier"`
	Seed    int64  `json:"seed"`
	Case    int    `json:"case"`
	Blocks  int    `json:"blocks"`
	Profile string `json:"profile"`
}

type Violation struct {
	Property string                 `json:"property"`
	Monitor  string                 `json:"monitor"`
	Sig      string                 `json:"sig"`
	Height   int64                  `json:"height"`
	Phase    string                 `json:"phase"`
	Detail   map[string]interface{} `json:"detail"`
}

type CaseResult struct {
	Spec         CaseSpec       `json:"spec"`
	BlocksRun    int            `json:"blocks_run"`
	Violations   []Violation    `json:"violations"`
	Buckets      []string       `json:"buckets"`
	Counters     map[string]int `json:"counters"`
	Samples      []string       `json:"samples"`
	WallS        float64        `json:"wall_s"`
	Inconclusive string         `json:"inconclusive,omitempty"`
}

const maxExch = 4

var exchanges = [maxExch]string{"Binance", "Kraken", "Okx", "Gate"}

type slot struct {
	Set   bool
	TS    int64 // unix nanoseconds
	Price uint64
}
type mstate [maxExch]slot

type upd struct {
	Ex    int
	Price uint64
	TS    int64
}
type opIn struct {
	Market  uint32
	Write   bool
	Upds    []upd
	ReadAt  int64
	MaxAge  int64
	MinExch uint32
}
type opOut struct {
	Present bool
	Price   uint64
}

func medianRef(p []uint64) uint64 {
	s := append([]uint64{}, p...)
	sort.Slice(s, func(i, j int) bool { return s[i] < s[j] })
	n := len(s)
	if n%2 == 1 {
		return s[n/2]
	}
	sum := new(big.Int).Add(new(big.Int).SetUint64(s[n/2-1]), new(big.Int).SetUint64(s[n/2]))
	q, r := new(big.Int).QuoRem(sum, big.NewInt(2), new(big.Int))
	if r.Sign() != 0 {
		q.Add(q, big.NewInt(1)) // away from zero
	}
	return q.Uint64()
}

var model = porcupine.Model{
	Init: func() interface{} { return mstate{} },
	Step: func(st, in, out interface{}) (bool, interface{}) {
		s := st.(mstate)
		i := in.(opIn)
		if i.Write {
			for _, u := range i.Upds {
				// per exchange keep the update with the greatest timestamp, strictly (a new slot starts at the zero time)
				cur := s[u.Ex]
				if !cur.Set {
					// a new slot starts at the zero time, every generated timestamp is later
					s[u.Ex] = slot{Set: true, TS: u.TS, Price: u.Price}
					continue
				}
				if u.TS > cur.TS {
					s[u.Ex] = slot{Set: true, TS: u.TS, Price: u.Price}
				}
			}
			return true, s
		}
		o := out.(opOut)
		cut := i.ReadAt - i.MaxAge
		var valid []uint64
		anySlot := false
		for _, sl := range s {
			if !sl.Set {
				continue
			}
			anySlot = true
			if sl.TS >= cut {
				valid = append(valid, sl.Price)
			}
		}
		_ = anySlot
		if len(valid) == 0 || uint32(len(valid)) < i.MinExch {
			return !o.Present, s
		}
		return o.Present && o.Price == medianRef(valid), s
	},
	DescribeOperation: func(in, out interface{}) string { return fmt.Sprintf("%+v -> %+v", in, out) },
}

type stats struct {
	mu       sync.Mutex
	buckets  map[string]struct{}
	counters map[string]int
}

func (s *stats) bucket(f string, a ...interface{}) {
	s.mu.Lock()
	s.buckets[fmt.Sprintf(f, a...)] = struct{}{}
	s.mu.Unlock()
}
func (s *stats) count(k string, n int) { s.mu.Lock(); s.counters[k] += n; s.mu.Unlock() }

func runHistory(spec CaseSpec, st *stats) (viol []Violation, inconclusive string, sample string) {
	r := rand.New(rand.NewSource(spec.Seed*7919 + int64(spec.Case)))
	// checked histories stay small (linearizability checking is NP-complete); every 8th history is a pure stress
	// run with many goroutines that only feeds the race detector
	stress := spec.Case%8 == 7
	goroutines := []int{2, 3, 4, 6, 8}[r.Intn(5)]
	markets := 1 + r.Intn(3)
	nEx := 1 + r.Intn(maxExch)
	phases := 100 / goroutines
	if stress {
		goroutines = []int{16, 32, 64}[r.Intn(3)]
		phases = 40
	}
	opsPer := phases
	maxAge := time.Duration(30+r.Intn(30)) * time.Second
	tsClass := []string{"increasing", "stale-and-equal", "out-of-order"}[r.Intn(3)]
	mte := pricefeedtypes.NewMarketToExchangePrices(maxAge)
	base := time.Unix(1_700_000_000, 0)
	var clock int64
	tick := func() int64 { return atomic.AddInt64(&clock, 1) }
	var mu sync.Mutex
	var ops []porcupine.Operation
	var wg sync.WaitGroup
	bar := newBarrier(goroutines)
	seeds := make([]int64, goroutines)
	for i := range seeds {
		seeds[i] = r.Int63()
	}
	for g := 0; g < goroutines; g++ {
		wg.Add(1)
		go func(g int) {
			defer wg.Done()
			rr := rand.New(rand.NewSource(seeds[g]))
			var counter uint64
			lastPrice := map[[2]int]uint64{} // (market, exchange) -> the price this goroutine quoted last
			for k := 0; k < opsPer; k++ {
				if !stress {
					bar.wait() // bounds how many operations can overlap
				}
				if rr.Intn(100) < 55 {
					// one update call touching 1..markets markets
					var req []*servertypes.MarketPriceUpdate
					var ins []opIn
					for m := 0; m < markets; m++ {
						if m > 0 && rr.Intn(2) == 0 {
							continue
						}
						mpu := &servertypes.MarketPriceUpdate{MarketId: uint32(m)}
						in := opIn{Market: uint32(m), Write: true}
						for e := 0; e < 1+rr.Intn(nEx); e++ {
							ex := rr.Intn(nEx)
							counter++
							price := uint64(g+1)<<32 | counter // unique: a read identifies the writes it saw
							if rr.Intn(40) == 0 {
								price = ^uint64(0) - uint64(rr.Intn(3)) // sums of two such prices overflow 64 bits
							}
							if p, had := lastPrice[[2]int{m, ex}]; had && rr.Intn(4) == 0 {
								price = p // an unchanged quote refreshed with another update time (only the time moves)
							}
							lastPrice[[2]int{m, ex}] = price
							var off time.Duration
							switch tsClass {
							case "increasing":
								off = time.Duration(tick()) * time.Millisecond
							case "stale-and-equal":
								off = time.Duration(rr.Intn(5)) * time.Second
							default:
								off = time.Duration(rr.Intn(120)-20) * time.Second
							}
							ts := base.Add(off)
							mpu.ExchangePrices = append(mpu.ExchangePrices, &servertypes.ExchangePrice{ExchangeId: exchanges[ex], Price: price, LastUpdateTime: &ts})
							in.Upds = append(in.Upds, upd{Ex: ex, Price: price, TS: ts.UnixNano()})
						}
						req = append(req, mpu)
						ins = append(ins, in)
					}
					call := tick()
					runtime.Gosched()
					mte.UpdatePrices(req)
					runtime.Gosched()
					ret := tick()
					mu.Lock()
					for _, in := range ins {
						ops = append(ops, porcupine.Operation{ClientId: g, Input: in, Call: call, Output: opOut{}, Return: ret})
					}
					mu.Unlock()
				} else {
					var params []clienttypes.MarketParam
					minEx := uint32(rr.Intn(nEx + 2))
					for m := 0; m < markets; m++ {
						params = append(params, clienttypes.MarketParam{Id: uint32(m), MinExchanges: minEx})
					}
					// read times on and around the cut-off of stored timestamps
					readAt := base.Add(maxAge + time.Duration(rr.Intn(130)-10)*time.Second)
					if rr.Intn(3) == 0 {
						readAt = base.Add(maxAge + time.Duration(rr.Intn(5))*time.Second)
					}
					call := tick()
					runtime.Gosched()
					got := mte.GetValidMedianPrices(params, readAt)
					runtime.Gosched()
					ret := tick()
					mu.Lock()
					for m := 0; m < markets; m++ {
						p, ok := got[uint32(m)]
						ops = append(ops, porcupine.Operation{ClientId: g, Input: opIn{Market: uint32(m), ReadAt: readAt.UnixNano(), MaxAge: int64(maxAge), MinExch: minEx}, Call: call, Output: opOut{Present: ok, Price: p}, Return: ret})
					}
					mu.Unlock()
				}
			}
		}(g)
	}
	wg.Wait()
	st.count("c20.operations", len(ops))
	st.bucket("c20|goroutines=%d|markets=%d|exchanges=%d|timestamps=%s", goroutines, markets, nEx, tsClass)
	if stress {
		st.count("c20.stress-operations", len(ops))
		return nil, "", fmt.Sprintf("stress g=%d markets=%d exchanges=%d ops=%d ts=%s", goroutines, markets, nEx, len(ops), tsClass)
	}
	// partition by market (a violation inside one market's sub-history is a violation of the whole)
	byM := map[uint32][]porcupine.Operation{}
	for _, o := range ops {
		m := o.Input.(opIn).Market
		byM[m] = append(byM[m], o)
	}
	h := fnvHash(ops)
	st.bucket("c20|history|%x", h)
	for m, sub := range byM {
		res, _ := porcupine.CheckOperationsVerbose(model, sub, 45*time.Second)
		st.count("c20.linearizability-checks", 1)
		switch res {
		case porcupine.Illegal:
			viol = append(viol, Violation{Property: "C20", Monitor: "porcupine", Sig: "history-not-linearizable", Phase: "pricelab",
				Detail: map[string]interface{}{"market": m, "ops": len(sub), "goroutines": goroutines, "timestamps": tsClass, "first_ops": describeOps(sub, 12)}})
		case porcupine.Unknown:
			inconclusive = fmt.Sprintf("porcupine timed out on a history of %d operations", len(sub))
		}
	}
	sample = fmt.Sprintf("g=%d markets=%d exchanges=%d ops=%d ts=%s", goroutines, markets, nEx, len(ops), tsClass)
	return
}

// ---- snapshot consistency of multi-market updates (the per-market partition of the porcupine check cannot see it) ----
// Every update writes ALL markets with one unique price and one globally increasing timestamp for one exchange, so
// whatever set of updates has been applied, the newest applied one is the same for every market: a read must
// return the same price for all markets (or none for all).
func runAtomicity(spec CaseSpec, st *stats) (viol []Violation) {
	r := rand.New(rand.NewSource(spec.Seed*104729 + int64(spec.Case)))
	// every other atomicity history sends its updates the way the price daemon does: as one UpdateMarketPrices request
	// to the daemon server's handler (one request = one update), not by calling the cache directly
	viaHandler := spec.Case%8 == 5
	markets := 2 + r.Intn(3)
	writers := 1 + r.Intn(4)
	readers := 1 + r.Intn(3)
	rounds := 300
	mte := pricefeedtypes.NewMarketToExchangePrices(time.Hour)
	srv := daemonserver.NewServer(sdklog.NewNopLogger(), nil, nil, "").WithPriceFeedMarketToExchangePrices(mte)
	base := time.Unix(1_700_000_000, 0)
	var clock int64
	var wg sync.WaitGroup
	var stop int32
	var mu sync.Mutex
	reads, mixed := 0, 0
	var witness string
	for w := 0; w < writers; w++ {
		wg.Add(1)
		go func(w int) {
			defer wg.Done()
			for k := 0; k < rounds; k++ {
				n := atomic.AddInt64(&clock, 1)
				ts := base.Add(time.Duration(n) * time.Millisecond)
				var req []*servertypes.MarketPriceUpdate
				for m := 0; m < markets; m++ {
					req = append(req, &servertypes.MarketPriceUpdate{MarketId: uint32(m), ExchangePrices: []*servertypes.ExchangePrice{{ExchangeId: exchanges[0], Price: uint64(n), LastUpdateTime: &ts}}})
				}
				if viaHandler {
					if _, err := srv.UpdateMarketPrices(context.Background(), &servertypes.UpdateMarketPricesRequest{MarketPriceUpdates: req}); err != nil {
						panic(err) // a well-formed request
					}
				} else {
					mte.UpdatePrices(req)
				}
				if k%7 == 0 {
					runtime.Gosched()
				}
			}
		}(w)
	}
	var rg sync.WaitGroup
	for q := 0; q < readers; q++ {
		rg.Add(1)
		go func() {
			defer rg.Done()
			var params []clienttypes.MarketParam
			for m := 0; m < markets; m++ {
				params = append(params, clienttypes.MarketParam{Id: uint32(m), MinExchanges: 1})
			}
			for atomic.LoadInt32(&stop) == 0 {
				got := mte.GetValidMedianPrices(params, base.Add(time.Second))
				p0, ok0 := got[0]
				bad := false
				for m := 1; m < markets; m++ {
					if p, ok := got[uint32(m)]; ok != ok0 || p != p0 {
						bad = true
					}
				}
				mu.Lock()
				reads++
				if bad {
					mixed++
					if witness == "" {
						witness = fmt.Sprint(got)
					}
				}
				mu.Unlock()
			}
		}()
	}
	wg.Wait()
	atomic.StoreInt32(&stop, 1)
	rg.Wait()
	st.count("c20.atomicity.reads", reads)
	st.count("c20.atomicity.updates", writers*rounds)
	st.bucket("c20|atomicity|markets=%d|writers=%d|readers=%d|via-handler=%v", markets, writers, readers, viaHandler)
	if mixed > 0 {
		viol = append(viol, Violation{Property: "C20", Monitor: "atomicity", Sig: "read-saw-part-of-a-multi-market-update", Phase: "pricelab",
			Detail: map[string]interface{}{"via_handler": viaHandler, "mixed_reads": mixed, "reads": reads, "markets": markets, "writers": writers, "first_witness": witness}})
	}
	return
}

// ---- the daemon server's ingestion handler: a request is one update, a refused request is no update ----
// Sequential: valid multi-market requests alternate with requests that carry one invalid entry (price 0 or no update
// time) before, between or after valid ones. A refused request never completed, so the served prices after it must be
// exactly those before it; an accepted one must be served completely.
func runIngest(spec CaseSpec, st *stats) (viol []Violation) {
	r := rand.New(rand.NewSource(spec.Seed*7919 + int64(spec.Case)))
	base := time.Unix(1_700_000_000, 0)
	for rep := 0; rep < 60; rep++ {
		markets := 2 + r.Intn(4)
		mte := pricefeedtypes.NewMarketToExchangePrices(time.Hour)
		srv := daemonserver.NewServer(sdklog.NewNopLogger(), nil, nil, "").WithPriceFeedMarketToExchangePrices(mte)
		var params []clienttypes.MarketParam
		for m := 0; m < markets; m++ {
			params = append(params, clienttypes.MarketParam{Id: uint32(m), MinExchanges: 1})
		}
		want := map[uint32]uint64{}
		tick := int64(0)
		for step := 0; step < 6; step++ {
			tick++
			ts := base.Add(time.Duration(tick) * time.Second)
			bad := -1
			if step%2 == 1 {
				bad = r.Intn(markets)
			}
			kind := r.Intn(2)
			var req []*servertypes.MarketPriceUpdate
			for m := 0; m < markets; m++ {
				t := ts
				ep := &servertypes.ExchangePrice{ExchangeId: exchanges[0], Price: uint64(1000*tick + int64(m)), LastUpdateTime: &t}
				if m == bad {
					if kind == 0 {
						ep.Price = 0
					} else {
						ep.LastUpdateTime = nil
					}
				}
				req = append(req, &servertypes.MarketPriceUpdate{MarketId: uint32(m), ExchangePrices: []*servertypes.ExchangePrice{ep}})
			}
			_, err := srv.UpdateMarketPrices(context.Background(), &servertypes.UpdateMarketPricesRequest{MarketPriceUpdates: req})
			st.count("c20.ingest.requests", 1)
			pos, knd := "none", "-"
			if bad >= 0 {
				pos = map[bool]string{true: "first", false: map[bool]string{true: "last", false: "middle"}[bad == markets-1]}[bad == 0]
				knd = []string{"price-0", "no-update-time"}[kind]
			}
			st.bucket("c20|ingest|markets=%d|invalid-at=%s|kind=%s", markets, pos, knd)
			if bad < 0 {
				if err != nil {
					viol = append(viol, Violation{Property: "C20", Monitor: "ingest", Sig: "well-formed-update-request-refused", Phase: "pricelab", Detail: map[string]interface{}{"err": err.Error()}})
					return
				}
				for m := 0; m < markets; m++ {
					want[uint32(m)] = uint64(1000*tick + int64(m))
				}
			} else if err == nil {
				viol = append(viol, Violation{Property: "C20", Monitor: "ingest", Sig: "update-request-with-an-invalid-entry-accepted", Phase: "pricelab", Detail: map[string]interface{}{"invalid_market": bad, "kind": kind}})
				return
			}
			got := mte.GetValidMedianPrices(params, ts)
			same := len(got) == len(want)
			for k, v := range want {
				if got[k] != v {
					same = false
				}
			}
			if !same {
				sig := "accepted-update-request-not-served-completely"
				if bad >= 0 {
					sig = "refused-update-request-changed-served-prices"
				}
				viol = append(viol, Violation{Property: "C20", Monitor: "ingest", Sig: sig, Phase: "pricelab",
					Detail: map[string]interface{}{"markets": markets, "invalid_market": bad, "served": fmt.Sprint(got), "want": fmt.Sprint(want)}})
				return
			}
		}
	}
	return
}

// ---- no completed update is lost: concurrent FIRST updates of a market on fresh instances ----
func runFirstUpdates(spec CaseSpec, st *stats, instances int) (viol []Violation) {
	r := rand.New(rand.NewSource(spec.Seed*15485863 + int64(spec.Case)))
	workers := 2 + r.Intn(3)
	base := time.Unix(1_700_000_000, 0)
	insts := make([]*pricefeedtypes.MarketToExchangePrices, instances)
	for i := range insts {
		insts[i] = pricefeedtypes.NewMarketToExchangePrices(time.Hour)
	}
	arrived := make([]int32, instances)
	var wg sync.WaitGroup
	for w := 0; w < workers; w++ {
		wg.Add(1)
		go func(w int) {
			defer wg.Done()
			ts := base.Add(time.Duration(w+1) * time.Millisecond)
			for i := 0; i < instances; i++ {
				// spin barrier: all workers hit instance i at the same moment
				atomic.AddInt32(&arrived[i], 1)
				for spin := 0; atomic.LoadInt32(&arrived[i]) < int32(workers); spin++ {
					if spin%64 == 63 {
						runtime.Gosched()
					}
				}
				insts[i].UpdatePrices([]*servertypes.MarketPriceUpdate{{MarketId: 7, ExchangePrices: []*servertypes.ExchangePrice{{ExchangeId: exchanges[w], Price: uint64(1000 + w), LastUpdateTime: &ts}}}})
			}
		}(w)
	}
	wg.Wait()
	want := make([]uint64, workers)
	for w := range want {
		want[w] = uint64(1000 + w)
	}
	wm := medianRef(want)
	lost := 0
	var witness string
	for i, inst := range insts {
		got := inst.GetValidMedianPrices([]clienttypes.MarketParam{{Id: 7, MinExchanges: uint32(workers)}}, base.Add(time.Second))
		if p, ok := got[7]; !ok || p != wm {
			lost++
			if witness == "" {
				witness = fmt.Sprintf("instance %d: present=%v price=%d want=%d with %d exchanges", i, ok, p, wm, workers)
			}
		}
	}
	st.count("c20.first-update.instances", instances)
	st.bucket("c20|first-update|workers=%d", workers)
	if lost > 0 {
		viol = append(viol, Violation{Property: "C20", Monitor: "first-update", Sig: "completed-update-lost-after-concurrent-first-updates", Phase: "pricelab",
			Detail: map[string]interface{}{"instances_with_lost_update": lost, "instances": instances, "workers": workers, "first_witness": witness}})
	}
	return
}

type barrier struct {
	mu    sync.Mutex
	cond  *sync.Cond
	n     int
	count int
	gen   int
}

// ---- what the daemon SERVES: the gRPC median server on top of the cache (GetMedianValue per query data, GetAllMedianValues) ----
// Several markets with different exchanges, prices, minimum exchange counts and exponents; every price is either
// fresh (stamped now) or stale (stamped three hours ago) against a maximum age of one hour - the server reads the wall
// clock itself, so the margins are hours. Each market's answer must be that market's own median / its own error.
func runServer(spec CaseSpec, st *stats) (viol []Violation) {
	r := rand.New(rand.NewSource(spec.Seed*15485863 + int64(spec.Case)))
	for rep := 0; rep < 40; rep++ {
		nm := 2 + r.Intn(4)
		mte := pricefeedtypes.NewMarketToExchangePrices(time.Hour)
		now := time.Now()
		var params []clienttypes.MarketParam
		want := map[uint32]uint64{}
		var req []*servertypes.MarketPriceUpdate
		for m := 0; m < nm; m++ {
			id := uint32(m*3 + 1)
			mp := clienttypes.MarketParam{Id: id, Pair: fmt.Sprintf("M%d-USD", m), Exponent: int32(-2 - m), MinExchanges: uint32(1 + r.Intn(3)), MinPriceChangePpm: 1,
				QueryData: fmt.Sprintf("%064X", uint64(0xabc000+m*17+rep))} // upper case: the server lower-cases its keys
			var fresh []uint64
			mpu := &servertypes.MarketPriceUpdate{MarketId: id}
			for e := 0; e < maxExch; e++ {
				if r.Intn(4) == 0 {
					continue
				}
				price := uint64(1000*(m+1) + r.Intn(500))
				ts := now
				if r.Intn(3) == 0 {
					ts = now.Add(-3 * time.Hour)
				} else {
					fresh = append(fresh, price)
				}
				t := ts
				mpu.ExchangePrices = append(mpu.ExchangePrices, &servertypes.ExchangePrice{ExchangeId: exchanges[e], Price: price, LastUpdateTime: &t})
			}
			if len(mpu.ExchangePrices) > 0 {
				req = append(req, mpu)
			}
			if len(fresh) > 0 && uint32(len(fresh)) >= mp.MinExchanges {
				want[id] = medianRef(fresh)
			}
			params = append(params, mp)
		}
		mte.UpdatePrices(req)
		srv := median.NewMedianValuesServer(client.Context{}, mte, params)
		st.count("c20.server.instances", 1)
		for i, mp := range params {
			qd, _ := hex.DecodeString(mp.QueryData)
			res, err := srv.GetMedianValue(context.Background(), &servertypes.GetMedianValueRequest{QueryData: qd})
			w, served := want[mp.Id]
			st.count("c20.server.single-market-queries", 1)
			st.bucket("c20|server|markets=%d|position=%s|served=%v", nm, map[bool]string{true: "last", false: "not-last"}[i == len(params)-1], served)
			switch {
			case served && (err != nil || res == nil || res.MedianValues == nil):
				viol = append(viol, Violation{Property: "C20", Monitor: "server", Sig: "no-price-served-although-enough-exchanges-are-fresh", Phase: "pricelab", Detail: map[string]interface{}{"market": mp.Id, "markets": nm, "position": i, "err": fmt.Sprint(err)}})
			case served && (res.MedianValues.Price != w || res.MedianValues.MarketId != mp.Id || res.MedianValues.Exponent != mp.Exponent):
				viol = append(viol, Violation{Property: "C20", Monitor: "server", Sig: "served-price-is-not-the-median-of-that-markets-fresh-prices", Phase: "pricelab",
					Detail: map[string]interface{}{"asked_market": mp.Id, "got_market": res.MedianValues.MarketId, "got": res.MedianValues.Price, "want": w, "got_exponent": res.MedianValues.Exponent, "want_exponent": mp.Exponent, "markets": nm, "position": i}})
			case !served && err == nil:
				viol = append(viol, Violation{Property: "C20", Monitor: "server", Sig: "price-served-with-fewer-fresh-exchanges-than-the-minimum", Phase: "pricelab", Detail: map[string]interface{}{"market": mp.Id, "got": res.MedianValues.Price, "min": mp.MinExchanges, "markets": nm, "position": i}})
			}
			if len(viol) > 3 {
				return
			}
		}
		all, err := srv.GetAllMedianValues(context.Background(), &servertypes.GetAllMedianValuesRequest{})
		if err == nil && all != nil {
			got := map[uint32]uint64{}
			for _, mv := range all.MedianValues {
				got[mv.MarketId] = mv.Price
			}
			st.count("c20.server.all-market-queries", 1)
			if len(got) != len(want) {
				viol = append(viol, Violation{Property: "C20", Monitor: "server", Sig: "all-markets-answer-lists-other-markets-than-those-with-enough-fresh-exchanges", Phase: "pricelab", Detail: map[string]interface{}{"got": len(got), "want": len(want)}})
			}
			for id, w := range want {
				if got[id] != w {
					viol = append(viol, Violation{Property: "C20", Monitor: "server", Sig: "all-markets-answer-price-is-not-the-markets-median", Phase: "pricelab", Detail: map[string]interface{}{"market": id, "got": got[id], "want": w}})
					break
				}
			}
		}
	}
	return
}

func newBarrier(n int) *barrier {
	b := &barrier{n: n}
	b.cond = sync.NewCond(&b.mu)
	return b
}

func (b *barrier) wait() {
	b.mu.Lock()
	g := b.gen
	b.count++
	if b.count == b.n {
		b.count = 0
		b.gen++
		b.cond.Broadcast()
	} else {
		for g == b.gen {
			b.cond.Wait()
		}
	}
	b.mu.Unlock()
}

func describeOps(ops []porcupine.Operation, n int) []string {
	var out []string
	for i, o := range ops {
		if i >= n {
			break
		}
		out = append(out, fmt.Sprintf("c%d [%d,%d] %+v -> %+v", o.ClientId, o.Call, o.Return, o.Input, o.Output))
	}
	return out
}

func fnvHash(ops []porcupine.Operation) uint64 {
	var h uint64 = 1469598103934665603
	for _, o := range ops {
		s := fmt.Sprintf("%d|%+v|%+v", o.ClientId, o.Input, o.Output)
		for i := 0; i < len(s); i++ {
			h ^= uint64(s[i])
			h *= 1099511628211
		}
	}
	return h
}

// ---- lib.Median against a big-integer reference ----

func refMedianBig(vals []*big.Int) *big.Int {
	s := make([]*big.Int, len(vals))
	copy(s, vals)
	sort.Slice(s, func(i, j int) bool { return s[i].Cmp(s[j]) < 0 })
	n := len(s)
	if n%2 == 1 {
		return s[n/2]
	}
	sum := new(big.Int).Add(s[n/2-1], s[n/2])
	q, r := new(big.Int).QuoRem(sum, big.NewInt(2), new(big.Int)) // truncated towards zero
	if r.Sign() != 0 {
		if sum.Sign() > 0 {
			q.Add(q, big.NewInt(1))
		} else {
			q.Sub(q, big.NewInt(1))
		}
	}
	return q
}

func checkMedian[V uint64 | uint32 | int64 | int32](name string, in []V, toBig func(V) *big.Int, st *stats) *Violation {
	got, err := lib.Median(in)
	st.count("c20.median-calls", 1)
	if len(in) == 0 {
		if err == nil {
			return &Violation{Property: "C20", Monitor: "median", Sig: "median-of-empty-input-returned-value:" + name, Phase: "pricelab"}
		}
		return nil
	}
	bs := make([]*big.Int, len(in))
	for i, v := range in {
		bs[i] = toBig(v)
	}
	want := refMedianBig(bs)
	if err != nil || toBig(got).Cmp(want) != 0 {
		return &Violation{Property: "C20", Monitor: "median", Sig: "median-differs-from-reference:" + name, Phase: "pricelab",
			Detail: map[string]interface{}{"input": fmt.Sprint(in), "got": fmt.Sprint(got), "want": want.String(), "err": fmt.Sprint(err)}}
	}
	return nil
}

func medianGrid(st *stats, r *rand.Rand, random int) (viol []Violation) {
	add := func(v *Violation) {
		if v != nil && len(viol) < 5 {
			viol = append(viol, *v)
		}
	}
	u64 := []uint64{0, 1, 2, 3, 1 << 63, 1<<63 - 1, 1<<63 + 1, ^uint64(0), ^uint64(0) - 1}
	u32 := []uint32{0, 1, 2, 3, 1 << 31, 1<<31 - 1, 1<<31 + 1, ^uint32(0), ^uint32(0) - 1}
	i64 := []int64{0, 1, -1, 2, -2, 1<<63 - 1, -1 << 63, 1<<63 - 2, -1<<63 + 1}
	i32 := []int32{0, 1, -1, 2, -2, 1<<31 - 1, -1 << 31, 1<<31 - 2, -1<<31 + 1}
	// exhaustive: every sequence of length <= 4 over the 9 boundary values, all four instantiations
	var rec func(depth int, idx []int)
	rec = func(depth int, idx []int) {
		a, b, c, d := make([]uint64, len(idx)), make([]uint32, len(idx)), make([]int64, len(idx)), make([]int32, len(idx))
		for i, j := range idx {
			a[i], b[i], c[i], d[i] = u64[j], u32[j], i64[j], i32[j]
		}
		add(checkMedian("uint64", a, func(v uint64) *big.Int { return new(big.Int).SetUint64(v) }, st))
		add(checkMedian("uint32", b, func(v uint32) *big.Int { return new(big.Int).SetUint64(uint64(v)) }, st))
		add(checkMedian("int64", c, func(v int64) *big.Int { return big.NewInt(v) }, st))
		add(checkMedian("int32", d, func(v int32) *big.Int { return big.NewInt(int64(v)) }, st))
		if depth == 4 {
			return
		}
		for j := 0; j < 9; j++ {
			rec(depth+1, append(append([]int{}, idx...), j))
		}
	}
	rec(0, nil)
	st.bucket("c20|median|exhaustive-boundary-grid-len<=4")
	for k := 0; k < random; k++ {
		n := 1 + r.Intn(9)
		a, c := make([]uint64, n), make([]int64, n)
		for i := range a {
			a[i] = r.Uint64()
			c[i] = int64(r.Uint64())
			if r.Intn(4) == 0 {
				a[i] = ^uint64(0) - uint64(r.Intn(4))
				c[i] = -1<<63 + int64(r.Intn(4))
			}
		}
		add(checkMedian("uint64", a, func(v uint64) *big.Int { return new(big.Int).SetUint64(v) }, st))
		add(checkMedian("int64", c, func(v int64) *big.Int { return big.NewInt(v) }, st))
		st.bucket("c20|median|random|n=%d|even=%v", n, n%2 == 0)
	}
	return
}

func main() {
	if len(os.Args) < 2 {
		os.Exit(2)
	}
	fs := flag.NewFlagSet(os.Args[1], flag.ExitOnError)
	tier := fs.String("tier", "quick", "tier")
	_ = fs.String("prop", "C20", "property")
	seed := fs.Int64("seed", 1, "seed")
	casesFlag := fs.String("cases", "", "cases")
	only := fs.Int("only", -1, "only")
	out := fs.String("out", "", "out")
	fs.Parse(os.Args[2:])
	if os.Args[1] == "plan" {
		n := map[string]int{"quick": 192, "thorough": 4000}[*tier]
		json.NewEncoder(os.Stdout).Encode(map[string]int{"cases": n, "blocks": 400})
		return
	}
	var list []int
	for _, s := range strings.Split(*casesFlag, ",") {
		if n, err := strconv.Atoi(s); err == nil {
			list = append(list, n)
		}
	}
	if *only >= 0 {
		list = []int{*only}
	}
	w := os.Stdout
	if *out != "" {
		f, err := os.Create(*out)
		if err != nil {
			panic(err)
		}
		defer f.Close()
		w = f
	}
	enc := json.NewEncoder(w)
	for _, i := range list {
		t0 := time.Now()
		st := &stats{buckets: map[string]struct{}{}, counters: map[string]int{}}
		spec := CaseSpec{Prop: "C20", Tier: *tier, Seed: *seed, Case: i, Blocks: 400, Profile: "pricelab"}
		res := CaseResult{Spec: spec}
		viol, inc, sample := runHistory(spec, st)
		res.Violations = viol
		if i%4 == 1 {
			res.Violations = append(res.Violations, runAtomicity(spec, st)...)
		}
		if i%4 == 3 {
			res.Violations = append(res.Violations, runServer(spec, st)...)
			res.Violations = append(res.Violations, runIngest(spec, st)...)
		}
		if i%4 == 2 {
			res.Violations = append(res.Violations, runFirstUpdates(spec, st, map[string]int{"quick": 6000, "thorough": 20000}[*tier])...)
		}
		res.Inconclusive = inc
		res.Samples = []string{sample}
		if i%40 == 0 { // the pure-function part once per 40 histories
			rnd := map[string]int{"quick": 20000, "thorough": 100000}[*tier]
			res.Violations = append(res.Violations, medianGrid(st, rand.New(rand.NewSource(*seed+int64(i))), rnd)...)
		}
		for b := range st.buckets {
			res.Buckets = append(res.Buckets, b)
		}
		sort.Strings(res.Buckets)
		res.Counters = st.counters
		res.BlocksRun = st.counters["c20.operations"]
		res.WallS = time.Since(t0).Seconds()
		enc.Encode(res)
	}
}
