package sim

import (
	"bytes"
	"crypto/sha256"
	"encoding/hex"
	"encoding/json"
	"fmt"
	dbm "github.com/cosmos/cosmos-db"
	"os"
	"runtime/debug"
	"sort"
	"time"

	abci "github.com/cometbft/cometbft/abci/types"
	cmtproto "github.com/cometbft/cometbft/proto/tendermint/types"
	protoio "github.com/cosmos/gogoproto/io"
	"github.com/tellor-io/layer/app"

	storetypes "cosmossdk.io/store/types"

	sdk "github.com/cosmos/cosmos-sdk/types"
	"github.com/cosmos/cosmos-sdk/x/auth/ante"
)

// Phase names of the observation points (DESIGN.md §2.1).
const (
	PhasePreBlock   = "preblock"
	PhaseBeginBlock = "beginblock"
	PhaseTx         = "tx"
	PhaseEndBlock   = "endblock"
	PhaseCommit     = "commit"
)

// Monitor observes a chain. All callbacks run on the goroutine that executes the block.
type Monitor interface {
	Name() string
	BeforeBlock(c *Chain, ctx sdk.Context)                   // S0: committed state of h-1
	BeginBlockEntry(c *Chain, ctx sdk.Context)               // S1: after PreBlocker
	BeginBlockExit(c *Chain, ctx sdk.Context, err error)     // S2
	BeforeTx(c *Chain, ctx sdk.Context, tx sdk.Tx)           // state just before the tx's ante handler runs
	AfterTx(c *Chain, ctx sdk.Context, tx sdk.Tx, ok bool)   // Ti, inside the tx's branch
	EndBlockEntry(c *Chain, ctx sdk.Context)                 // S3
	EndBlockExit(c *Chain, ctx sdk.Context, err error)       // S4
	AfterCommit(c *Chain, ctx sdk.Context, res *BlockResult) // S5
}

// BaseMonitor is a no-op implementation to embed.
type BaseMonitor struct{}

func (BaseMonitor) BeforeBlock(*Chain, sdk.Context)               {}
func (BaseMonitor) BeginBlockEntry(*Chain, sdk.Context)           {}
func (BaseMonitor) BeginBlockExit(*Chain, sdk.Context, error)     {}
func (BaseMonitor) BeforeTx(*Chain, sdk.Context, sdk.Tx)          {}
func (BaseMonitor) AfterTx(*Chain, sdk.Context, sdk.Tx, bool)     {}
func (BaseMonitor) EndBlockEntry(*Chain, sdk.Context)             {}
func (BaseMonitor) EndBlockExit(*Chain, sdk.Context, error)       {}
func (BaseMonitor) AfterCommit(*Chain, sdk.Context, *BlockResult) {}

// Hooks carries the wrappers installed into the app before it is sealed.
type Hooks struct {
	chain *Chain
}

func (h *Hooks) install(a *app.App) {
	a.SetBeginBlocker(func(ctx sdk.Context) (sdk.BeginBlock, error) {
		c := h.chain
		if c != nil && c.observing {
			c.phase = PhaseBeginBlock
			c.txIndex = 0
			ictx := infinite(ctx)
			for _, m := range c.Monitors {
				m.BeginBlockEntry(c, ictx)
			}
		}
		var entry sdk.Context
		if c != nil && c.observing {
			entry, _ = ctx.CacheContext()
		}
		res, err := func() (r sdk.BeginBlock, err error) {
			defer func() {
				if rec := recover(); rec != nil {
					if c != nil && c.observing {
						c.failModule = attributeBegin(a, entry)
					}
					err = fmt.Errorf("PANIC in BeginBlocker: %v\n%s", rec, debug.Stack())
					if c != nil {
						c.lastPanic = err.Error()
					}
					panic(rec)
				}
			}()
			return a.BeginBlocker(ctx)
		}()
		if c != nil && c.observing {
			if err != nil {
				c.phaseErr = fmt.Sprintf("beginblock: %v", err)
				c.failModule = attributeBegin(a, entry)
			}
			ictx := infinite(ctx)
			for _, m := range c.Monitors {
				m.BeginBlockExit(c, ictx, err)
			}
			if err == nil {
				c.phase = PhaseTx
			}
		}
		return res, err
	})
	a.SetEndBlocker(func(ctx sdk.Context) (sdk.EndBlock, error) {
		c := h.chain
		if c != nil && c.observing {
			c.phase = PhaseEndBlock
			ictx := infinite(ctx)
			for _, m := range c.Monitors {
				m.EndBlockEntry(c, ictx)
			}
		}
		var entry sdk.Context
		if c != nil && c.observing {
			entry, _ = ctx.CacheContext()
		}
		res, err := func() (r sdk.EndBlock, err error) {
			defer func() {
				if rec := recover(); rec != nil {
					if c != nil && c.observing {
						c.failModule = attributeEnd(a, entry)
					}
					err = fmt.Errorf("PANIC in EndBlocker: %v\n%s", rec, debug.Stack())
					if c != nil {
						c.lastPanic = err.Error()
					}
					panic(rec)
				}
			}()
			return a.EndBlocker(ctx)
		}()
		if c != nil && c.observing {
			if err != nil {
				c.phaseErr = fmt.Sprintf("endblock: %v", err)
				c.failModule = attributeEnd(a, entry)
			}
			ictx := infinite(ctx)
			for _, m := range c.Monitors {
				m.EndBlockExit(c, ictx, err)
			}
		}
		return res, err
	})
	// the application's own ante chain (app.NewAnteHandler with the options app.setAnteHandler uses), with an
	// observation point in front of it: monitors see the exact state a transaction starts from
	inner, err := app.NewAnteHandler(app.HandlerOptions{
		HandlerOptions: ante.HandlerOptions{
			AccountKeeper:   a.AccountKeeper,
			BankKeeper:      a.BankKeeper,
			SignModeHandler: a.TxConfig().SignModeHandler(),
			FeegrantKeeper:  a.FeeGrantKeeper,
			SigGasConsumer:  ante.DefaultSigVerificationGasConsumer,
		},
		ReporterKeeper:  a.ReporterKeeper,
		StakingKeeper:   a.StakingKeeper,
		GlobalFeeKeeper: a.GlobalFeeKeeper,
	})
	if err != nil {
		panic(err)
	}
	a.SetAnteHandler(func(ctx sdk.Context, tx sdk.Tx, simulate bool) (sdk.Context, error) {
		c := h.chain
		if c != nil && c.observing && !simulate && ctx.ExecMode() == sdk.ExecModeFinalize {
			ictx := infinite(ctx)
			for _, m := range c.Monitors {
				m.BeforeTx(c, ictx, tx)
			}
		}
		return inner(ctx, tx, simulate)
	})
	a.SetPostHandler(func(ctx sdk.Context, tx sdk.Tx, simulate, success bool) (sdk.Context, error) {
		c := h.chain
		if c != nil && c.observing && !simulate && ctx.ExecMode() == sdk.ExecModeFinalize {
			ictx := infinite(ctx)
			for _, m := range c.Monitors {
				m.AfterTx(c, ictx, tx, success)
			}
			c.txIndex++
		}
		return ctx, nil
	})
}

func infinite(ctx sdk.Context) sdk.Context {
	return ctx.WithGasMeter(storetypes.NewInfiniteGasMeter()).WithEventManager(sdk.NewEventManager())
}

// CometVal is a validator as the consensus engine knows it.
type CometVal struct {
	Keys  *ValKeys
	Power int64
}

// VoteSpec tells how validator i behaves in the commit of a block.
type VoteSpec struct {
	Flag      cmtproto.BlockIDFlag // Commit / Absent / Nil
	Extension []byte               // used when Flag==Commit
}

// BlockResult is what a block execution produced.
type BlockResult struct {
	Height    int64
	Time      time.Time
	Txs       [][]byte // including the injected tx
	Res       *abci.ResponseFinalizeBlock
	Err       error  // FinalizeBlock / Commit error (C02)
	Panic     string // recovered panic, with stack
	Phase     string // where the failure happened
	AppHash   []byte
	Proposal  abci.ResponseProcessProposal_ProposalStatus
	PrepErr   error
	NumUserTx int
}

// Chain is one running chain: the app plus the consensus-engine state the harness plays.
type Chain struct {
	W        *World
	App      *app.App
	Monitors []Monitor
	cleanup  func()

	Height        int64 // last committed height
	Time          time.Time
	Dead          bool
	valsets       map[int64][]CometVal    // valsets[h] votes on block h
	lastExt       abci.ExtendedCommitInfo // commit carried by the block being / last executed
	pendingVotes  map[string]VoteSpec     // cons addr -> vote on the block just committed
	PendingHonest map[string][]byte
	leak          *leakDB
	IterLeaks     int // iterators found open at commit time (closed by the driver)
	// LastHonest: what an honest node would have put into the vote extensions that travel in the commit of the block
	// being executed now (the PendingHonest of the previous height)
	LastHonest               map[string][]byte
	ExtVerdicts, ExtRejected int

	observing     bool
	phase         string
	txIndex       int
	phaseErr      string
	lastPanic     string
	failModule    string
	onFinalizeReq func(*abci.RequestFinalizeBlock)

	Violations []Violation
	Flags      map[string]bool
	Rec        *Recorder
	// OnProposal is called with the accepted honest proposal before it is finalised (C17 mutates and re-submits it)
	OnProposal func(c *Chain, req *abci.RequestProcessProposal, ec abci.ExtendedCommitInfo)
	PanicLog   *PanicLog
	// ExtensionFor builds the vote extension of an honest validator for the block just committed.
	ExtensionFor func(c *Chain, ctx sdk.Context, v *ValKeys) []byte
}

type Violation struct {
	Property string                 `json:"property"`
	Monitor  string                 `json:"monitor"`
	Sig      string                 `json:"sig"` // stable signature used for known-finding matching and dedup
	Height   int64                  `json:"height"`
	Phase    string                 `json:"phase"`
	Detail   map[string]interface{} `json:"detail"`
}

func (c *Chain) Violate(prop, monitor, sig string, detail map[string]interface{}) {
	c.Violations = append(c.Violations, Violation{Property: prop, Monitor: monitor, Sig: sig, Height: c.Height + 1, Phase: c.phase, Detail: detail})
}

func (c *Chain) Phase() string { return c.phase }
func (c *Chain) TxIndex() int  { return c.txIndex }

// NewChain creates the app, runs InitChain and commits nothing yet (height 0).
func NewChain(w *World, o AppOpts, monitors ...Monitor) *Chain {
	h := &Hooks{}
	var leak *leakDB
	if o.DB == nil {
		leak = newLeakDB(dbm.NewMemDB())
		o.DB = leak
	}
	a, cleanup := NewApp(o, h)
	c := &Chain{PanicLog: o.PanicLog, W: w, App: a, Monitors: monitors, cleanup: cleanup, valsets: map[int64][]CometVal{}, pendingVotes: map[string]VoteSpec{}, Flags: map[string]bool{}, leak: leak}
	h.chain = c
	req := w.InitChainRequest(a)
	res, err := a.InitChain(req)
	if err != nil {
		panic(fmt.Errorf("InitChain: %w", err))
	}
	vs := c.applyUpdates(nil, res.Validators)
	c.valsets[1] = vs
	c.valsets[2] = vs
	c.Time = w.Cfg.GenesisTime
	c.ExtensionFor = HonestExtension
	if w.Cfg.Keyless {
		empty, _ := json.Marshal(app.BridgeVoteExtension{})
		c.ExtensionFor = func(c *Chain, ctx sdk.Context, v *ValKeys) []byte {
			if w.Cfg.KeyedVal < len(c.W.Vals) && c.W.Vals[w.Cfg.KeyedVal] == v {
				return HonestExtension(c, ctx, v)
			}
			return empty
		}
	}
	return c
}

func (c *Chain) Close() {
	if c.cleanup != nil {
		c.cleanup()
	}
}

func (c *Chain) applyUpdates(cur []CometVal, ups []abci.ValidatorUpdate) []CometVal {
	m := map[string]CometVal{}
	for _, v := range cur {
		m[string(v.Keys.ConsAdr)] = v
	}
	for _, u := range ups {
		pk := u.PubKey.GetEd25519()
		var keys *ValKeys
		for _, k := range c.W.Vals {
			if bytes.Equal(k.Cons.PubKey().Bytes(), pk) {
				keys = k
			}
		}
		if keys == nil {
			panic("validator update for unknown consensus key")
		}
		if u.Power == 0 {
			delete(m, string(keys.ConsAdr))
		} else {
			m[string(keys.ConsAdr)] = CometVal{Keys: keys, Power: u.Power}
		}
	}
	out := make([]CometVal, 0, len(m))
	for _, v := range m {
		out = append(out, v)
	}
	// CometBFT orders by power desc, address asc
	sort.Slice(out, func(i, j int) bool {
		if out[i].Power != out[j].Power {
			return out[i].Power > out[j].Power
		}
		return bytes.Compare(out[i].Keys.ConsAdr, out[j].Keys.ConsAdr) < 0
	})
	return out
}

// Valset returns the validators that vote on block h.
func (c *Chain) Valset(h int64) []CometVal {
	if vs, ok := c.valsets[h]; ok {
		return vs
	}
	// extend from the last known
	var last int64
	for k := range c.valsets {
		if k > last && k < h {
			last = k
		}
	}
	return c.valsets[last]
}

// CommittedCtx is a read context on the last committed state.
func (c *Chain) CommittedCtx() sdk.Context {
	hdr := cmtproto.Header{ChainID: ChainID, Height: c.Height, Time: c.Time}
	return c.App.NewUncachedContext(false, hdr).WithGasMeter(storetypes.NewInfiniteGasMeter())
}

func voteExtSignBytes(ext []byte, height int64, round int64) []byte {
	cve := cmtproto.CanonicalVoteExtension{Extension: ext, Height: height, Round: round, ChainId: ChainID}
	var buf bytes.Buffer
	if err := protoio.NewDelimitedWriter(&buf).WriteMsg(&cve); err != nil {
		panic(err)
	}
	return buf.Bytes()
}

// buildCommit makes the extended commit for the block at height h (votes by valset(h)).
func (c *Chain) buildCommit(h int64, spec func(v CometVal) VoteSpec) abci.ExtendedCommitInfo {
	ec := abci.ExtendedCommitInfo{Round: 0}
	for _, v := range c.Valset(h) {
		s := spec(v)
		vi := abci.ExtendedVoteInfo{
			Validator:   abci.Validator{Address: v.Keys.ConsAdr, Power: v.Power},
			BlockIdFlag: s.Flag,
		}
		if s.Flag == cmtproto.BlockIDFlagCommit {
			vi.VoteExtension = s.Extension
			sig, err := v.Keys.Cons.Sign(voteExtSignBytes(s.Extension, h, 0))
			if err != nil {
				panic(err)
			}
			vi.ExtensionSignature = sig
		}
		ec.Votes = append(ec.Votes, vi)
	}
	return ec
}

func toCommitInfo(ec abci.ExtendedCommitInfo) abci.CommitInfo {
	ci := abci.CommitInfo{Round: ec.Round}
	for _, v := range ec.Votes {
		ci.Votes = append(ci.Votes, abci.VoteInfo{Validator: v.Validator, BlockIdFlag: v.BlockIdFlag})
	}
	return ci
}

// BlockPlan describes the next block.
type BlockPlan struct {
	Gap time.Duration
	Txs [][]byte
	// Votes decides how each validator of this block's set votes on THIS block (the votes travel in the next
	// block's commit). honest is the extension the real ExtendVote logic would produce. nil => commit + honest.
	Votes       func(c *Chain, v CometVal, honest []byte) VoteSpec
	Misbehavior []abci.Misbehavior
	// MutateProposal lets a test alter the proposal between Prepare and Process (C17); the block is then only processed, never finalised, when rejected.
	ProposerIdx int
}

// NextBlockRecorded is NextBlock with a callback that sees the FinalizeBlock request before it is executed.
func (c *Chain) NextBlockRecorded(p BlockPlan, onReq func(*abci.RequestFinalizeBlock)) *BlockResult {
	c.onFinalizeReq = onReq
	defer func() { c.onFinalizeReq = nil }()
	return c.NextBlock(p)
}

// NextBlock produces, processes, finalises and commits the next block.
func (c *Chain) NextBlock(p BlockPlan) *BlockResult {
	if c.Dead {
		panic("chain is dead")
	}
	h := c.Height + 1
	t := c.Time.Add(p.Gap)
	if !t.After(c.Time) {
		t = c.Time.Add(time.Millisecond)
	}
	br := &BlockResult{Height: h, Time: t}

	// S0
	c.phase = PhasePreBlock
	c.phaseErr = ""
	c.lastPanic = ""
	c.failModule = ""
	ctx0 := c.CommittedCtx()
	for _, m := range c.Monitors {
		m.BeforeBlock(c, ctx0)
	}

	var ec abci.ExtendedCommitInfo
	if h > 1 {
		ec = c.buildCommit(h-1, func(v CometVal) VoteSpec {
			if s, ok := c.pendingVotes[string(v.Keys.ConsAdr)]; ok {
				return s
			}
			return VoteSpec{Flag: cmtproto.BlockIDFlagAbsent}
		})
	}
	vs := c.Valset(h)
	var proposer []byte
	if len(vs) > 0 {
		proposer = vs[(int(h)+p.ProposerIdx)%len(vs)].Keys.ConsAdr
	}
	nextValsHash := sha256.Sum256([]byte(fmt.Sprintf("vals-%d", h)))

	prep, err := c.App.PrepareProposal(&abci.RequestPrepareProposal{
		MaxTxBytes: 20_000_000, Txs: p.Txs, LocalLastCommit: ec, Height: h, Time: t,
		ProposerAddress: proposer, NextValidatorsHash: nextValsHash[:],
	})
	if err != nil {
		br.PrepErr = err
		br.Err = fmt.Errorf("PrepareProposal: %w", err)
		br.Phase = "prepare"
		c.Dead = true
		return br
	}
	br.Txs = prep.Txs
	br.NumUserTx = len(p.Txs)
	blockHash := sha256.Sum256(bytes.Join(append([][]byte{[]byte(fmt.Sprint(h))}, prep.Txs...), nil))
	ppReq := &abci.RequestProcessProposal{
		Txs: prep.Txs, ProposedLastCommit: toCommitInfo(ec), Hash: blockHash[:], Height: h, Time: t,
		ProposerAddress: proposer, NextValidatorsHash: nextValsHash[:], Misbehavior: p.Misbehavior,
	}
	proc, err := c.App.ProcessProposal(ppReq)
	if err != nil {
		br.Err = fmt.Errorf("ProcessProposal: %w", err)
		br.Phase = "process"
		c.Dead = true
		return br
	}
	br.Proposal = proc.Status
	if proc.Status != abci.ResponseProcessProposal_ACCEPT {
		// an honest proposer's block was rejected by an honest validator: the round fails (C17).
		br.Err = fmt.Errorf("ProcessProposal rejected the honest proposal")
		br.Phase = "process"
		c.Dead = true
		return br
	}

	if c.OnProposal != nil && h > 1 {
		c.OnProposal(c, ppReq, ec)
	}
	// the validators of height h now precommit block h: extensions are built on the state committed at h-1
	// (what ExtendVote sees) and filtered through the real VerifyVoteExtension, as the consensus engine does.
	c.pendingVotes = map[string]VoteSpec{}
	c.LastHonest = c.PendingHonest
	c.PendingHonest = map[string][]byte{}
	ectx := c.App.NewUncachedContext(false, cmtproto.Header{ChainID: ChainID, Height: h, Time: t}).WithGasMeter(storetypes.NewInfiniteGasMeter())
	for _, v := range vs {
		honest := c.ExtensionFor(c, ectx, v.Keys)
		c.PendingHonest[string(v.Keys.ConsAdr)] = honest
		s := VoteSpec{Flag: cmtproto.BlockIDFlagCommit, Extension: honest}
		if p.Votes != nil {
			s = p.Votes(c, v, honest)
		}
		if s.Flag == cmtproto.BlockIDFlagCommit {
			ok, pan := c.VerifyExt(h, v.Keys, s.Extension)
			if pan != "" {
				c.Violate("C17", "driver", "panic:VerifyVoteExtension", map[string]interface{}{"ext": hex.EncodeToString(s.Extension)})
			}
			c.ExtVerdicts++
			if !ok {
				c.ExtRejected++
				s = VoteSpec{Flag: cmtproto.BlockIDFlagAbsent}
			}
		}
		c.pendingVotes[string(v.Keys.ConsAdr)] = s
	}

	req := &abci.RequestFinalizeBlock{
		Txs: prep.Txs, DecidedLastCommit: toCommitInfo(ec), Misbehavior: p.Misbehavior, Hash: blockHash[:],
		Height: h, Time: t, ProposerAddress: proposer, NextValidatorsHash: nextValsHash[:],
	}
	if c.Rec != nil {
		c.Rec.Finalize(req)
	}
	if c.onFinalizeReq != nil {
		c.onFinalizeReq(req)
	}
	c.lastExt = ec
	c.observing = true
	res, ferr := func() (r *abci.ResponseFinalizeBlock, err error) {
		defer func() {
			if rec := recover(); rec != nil {
				st := c.lastPanic
				if st == "" {
					st = fmt.Sprintf("PANIC in FinalizeBlock: %v\n%s", rec, debug.Stack())
				}
				br.Panic = st
				err = fmt.Errorf("panic: %v", rec)
			}
		}()
		return c.App.FinalizeBlock(req)
	}()
	c.observing = false
	if ferr != nil {
		br.Err = ferr
		br.Phase = c.phase
		if c.failModule != "" {
			br.Phase = c.phase + "/" + c.failModule
		}
		c.Dead = true
		return br
	}
	br.Res = res
	br.AppHash = res.AppHash
	// an iterator somebody forgot to close would make the in-memory database wait for ever in Commit: count it, say
	// where it came from (VERIF_ITER_STACKS=1) and close it
	if c.leak != nil {
		if n, st := c.leak.OpenIterators(); n > 0 {
			c.IterLeaks += n
			if st != "" {
				fmt.Fprintf(os.Stderr, "ITERATOR-LEAK height=%d open=%d first created at:\n%s\n", h, n, st)
			}
			c.leak.CloseLeaked()
		}
	}
	if _, err := c.App.Commit(); err != nil {
		br.Err = fmt.Errorf("Commit: %w", err)
		br.Phase = PhaseCommit
		c.Dead = true
		return br
	}
	c.Height = h
	c.Time = t
	c.lastExt = ec
	c.valsets[h+2] = c.applyUpdates(c.Valset(h+1), res.ValidatorUpdates)
	if _, ok := c.valsets[h+1]; !ok {
		c.valsets[h+1] = c.Valset(h + 1)
	}
	delete(c.valsets, h-3)
	c.phase = PhaseCommit
	ctx5 := c.CommittedCtx()
	for _, m := range c.Monitors {
		m.AfterCommit(c, ctx5, br)
	}
	return br
}

// ResultDigest hashes what CometBFT hashes into LastResultsHash plus events and validator updates.
func ResultDigest(res *abci.ResponseFinalizeBlock) string {
	h := sha256.New()
	enc := json.NewEncoder(h)
	for _, r := range res.TxResults {
		_ = enc.Encode([]interface{}{r.Code, r.Data, r.GasWanted, r.GasUsed, r.Codespace})
		for _, e := range r.Events {
			_ = enc.Encode(e)
		}
	}
	for _, e := range res.Events {
		_ = enc.Encode(e)
	}
	for _, v := range res.ValidatorUpdates {
		_ = enc.Encode(v)
	}
	if res.ConsensusParamUpdates != nil {
		_ = enc.Encode(res.ConsensusParamUpdates)
	}
	return hex.EncodeToString(h.Sum(nil))
}
