package sim

import (
	"fmt"
	"time"

	oracletypes "github.com/tellor-io/layer/x/oracle/types"
	reportertypes "github.com/tellor-io/layer/x/reporter/types"

	"cosmossdk.io/collections"
	"cosmossdk.io/math"

	sdk "github.com/cosmos/cosmos-sdk/types"
	stakingtypes "github.com/cosmos/cosmos-sdk/x/staking/types"
)

// C10Monitor: reporting power equals the bonded stake of active selectors, counted once (DESIGN.md §4 C10).
type C10Monitor struct {
	removedAt map[string]time.Time // selector -> time of the last accepted RemoveSelector naming it
	BaseMonitor
	st        *Stats
	reporters map[string]reportertypes.OracleReporter // shadow before the next tx
	lastUse   map[string]useRec                       // selector|validator -> last reporter that counted it
	locks     map[string]time.Time                    // selector -> end of its lock period, as stored before the next tx
}

type useRec struct {
	reporter string
	at       time.Time
}

func NewC10Monitor(st *Stats) *C10Monitor {
	return &C10Monitor{st: st, lastUse: map[string]useRec{}}
}
func (m *C10Monitor) Name() string { return "c10" }

func (m *C10Monitor) refresh(c *Chain, ctx sdk.Context) {
	m.reporters = map[string]reportertypes.OracleReporter{}
	_ = c.App.ReporterKeeper.Reporters.Walk(ctx, nil, func(k []byte, r reportertypes.OracleReporter) (bool, error) {
		m.reporters[string(k)] = r
		return false, nil
	})
	m.locks = map[string]time.Time{}
	_ = c.App.ReporterKeeper.Selectors.Walk(ctx, nil, func(k []byte, s reportertypes.Selection) (bool, error) {
		m.locks[string(k)] = s.LockedUntilTime
		return false, nil
	})
}

// lockKept: a lock period that has started lasts: no transaction moves the end of a selector's running lock period
// backwards (switching again can only extend it), otherwise the stake counts for a second reporter inside the window
func (m *C10Monitor) lockKept(c *Chain, ctx sdk.Context, name string) {
	now := ctx.BlockTime()
	_ = c.App.ReporterKeeper.Selectors.Walk(ctx, nil, func(k []byte, s reportertypes.Selection) (bool, error) {
		old, ok := m.locks[string(k)]
		if ok && old.After(now) {
			m.st.Count("c10.lock.evals")
			if s.LockedUntilTime.Before(old) {
				c.Violate("C10", "c10", "running-lock-period-of-a-selector-cut-short:"+name, map[string]interface{}{"selector": sdk.AccAddress(k).String(), "was_locked_until": old.String(), "now_locked_until": s.LockedUntilTime.String(), "now": now.String()})
			}
		}
		return false, nil
	})
}

func (m *C10Monitor) BeforeBlock(c *Chain, ctx sdk.Context)               { m.refresh(c, ctx) }
func (m *C10Monitor) BeginBlockExit(c *Chain, ctx sdk.Context, err error) { m.refresh(c, ctx) }

// bondedStake recomputes from x/staking alone what selector sel has delegated to bonded validators,
// once with truncated and once with rounded share->token conversion.
func bondedStake(c *Chain, ctx sdk.Context, sel sdk.AccAddress) (trunc, round math.Int, n int, perVal map[string]math.Int) {
	trunc, round = math.ZeroInt(), math.ZeroInt()
	perVal = map[string]math.Int{}
	_ = c.App.StakingKeeper.IterateDelegatorDelegations(ctx, sel, func(d stakingtypes.Delegation) bool {
		n++
		va, err := sdk.ValAddressFromBech32(d.ValidatorAddress)
		if err != nil {
			return false
		}
		v, err := c.App.StakingKeeper.GetValidator(ctx, va)
		if err != nil || !v.IsBonded() {
			return false
		}
		t := v.TokensFromShares(d.Shares)
		round = round.Add(t.Ceil().TruncateInt())
		// a validator jailed earlier in this block keeps the status "bonded" until the end blocker but has already left
		// the power index; whether its delegations still count "at that moment" is not decided by the statement:
		// the lower bound leaves them out, the upper bound keeps them, and their token origins are not compared
		if v.Jailed {
			return false
		}
		trunc = trunc.Add(t.TruncateInt())
		perVal[string(va)] = t.TruncateInt()
		return false
	})
	return
}

func (m *C10Monitor) selectorsOf(c *Chain, ctx sdk.Context, rep sdk.AccAddress) (sels []sdk.AccAddress) {
	iter, err := c.App.ReporterKeeper.Selectors.Indexes.Reporter.MatchExact(ctx, rep.Bytes())
	if err != nil {
		return nil
	}
	defer iter.Close()
	for ; iter.Valid(); iter.Next() {
		k, err := iter.PrimaryKey()
		if err == nil {
			sels = append(sels, sdk.AccAddress(k))
		}
	}
	return
}

func (m *C10Monitor) AfterTx(c *Chain, ctx sdk.Context, tx sdk.Tx, ok bool) {
	if !ok {
		return
	}
	a := c.App
	now := ctx.BlockTime()
	txName, _ := layerMsg(tx)
	m.lockKept(c, ctx, txName)
	params, _ := a.ReporterKeeper.Params.Get(ctx)
	maxVals, _ := a.StakingKeeper.MaxValidators(ctx)
	unbonding, _ := a.StakingKeeper.UnbondingTime(ctx)
	for _, msg := range tx.GetMsgs() {
		switch x := msg.(type) {
		case *oracletypes.MsgSubmitValue:
			rep := sdk.MustAccAddressFromBech32(x.Creator)
			qid := QueryID(x.QueryData)
			cur, err := a.OracleKeeper.CurrentQuery(ctx, qid)
			if err != nil {
				continue
			}
			stored, err := a.OracleKeeper.Reports.Get(ctx, collections.Join3(qid, rep.Bytes(), cur.Id))
			if err != nil {
				continue
			}
			m.st.Count("c10.power.evals")
			if pre, ok := m.reporters[string(rep)]; ok && pre.Jailed {
				c.Violate("C10", "c10", "report-accepted-from-jailed-reporter", map[string]interface{}{"reporter": x.Creator})
			}
			lo, hi := math.ZeroInt(), math.ZeroInt()
			nSel, locked, manyDels, slashedVal := 0, 0, false, false
			want := map[string]math.Int{}
			for _, s := range m.selectorsOf(c, ctx, rep) {
				sel, err := a.ReporterKeeper.Selectors.Get(ctx, s.Bytes())
				if err != nil {
					continue
				}
				nSel++
				if sel.LockedUntilTime.After(now) {
					locked++
					continue
				}
				t, r, n, per := bondedStake(c, ctx, s)
				if uint64(n) > uint64(maxVals) {
					manyDels = true
				}
				if !t.Equal(r) {
					slashedVal = true
				}
				lo, hi = lo.Add(t), hi.Add(r)
				for v, amt := range per {
					want[string(s)+"|"+v] = amt
				}
			}
			pLo, pHi := lo.QuoRaw(1_000_000).Uint64(), hi.QuoRaw(1_000_000).Uint64()
			m.st.Bucket("c10|report|selectors=%d|locked=%d|dels>maxvals=%v|sharePrice!=1=%v", minInt(nSel, 4), minInt(locked, 2), manyDels, slashedVal)
			if stored.Power < pLo || stored.Power > pHi {
				var dbg []string
				for _, s := range m.selectorsOf(c, ctx, rep) {
					sel, _ := a.ReporterKeeper.Selectors.Get(ctx, s.Bytes())
					dbg = append(dbg, fmt.Sprintf("selector %s count=%d maxvals=%d", s.String()[6:12], sel.DelegationsCount, maxVals))
					_ = a.StakingKeeper.IterateDelegatorDelegations(ctx, s, func(d stakingtypes.Delegation) bool {
						va, _ := sdk.ValAddressFromBech32(d.ValidatorAddress)
						v, _ := a.StakingKeeper.GetValidator(ctx, va)
						dbg = append(dbg, fmt.Sprintf("  del %s shares=%s status=%s jailed=%v tokens=%s", d.ValidatorAddress[len(d.ValidatorAddress)-6:], d.Shares, v.Status, v.Jailed, v.Tokens))
						return false
					})
				}
				c.Violate("C10", "c10", "report-power-not-bonded-stake-of-active-selectors", map[string]interface{}{"reporter": x.Creator, "power": stored.Power, "want_lo": pLo, "want_hi": pHi, "selectors": nSel, "locked": locked, "debug": dbg})
			}
			// token origins recorded for this report
			snap, err := a.ReporterKeeper.Report.Get(ctx, collJoinReport(qid, rep, uint64(ctx.BlockHeight())))
			if err == nil {
				got := map[string]math.Int{}
				sum := math.ZeroInt()
				for _, o := range snap.TokenOrigins {
					k := string(o.DelegatorAddress) + "|" + string(o.ValidatorAddress)
					if old, ok := got[k]; ok {
						got[k] = old.Add(o.Amount)
					} else {
						got[k] = o.Amount
					}
					sum = sum.Add(o.Amount)
				}
				if !sum.Equal(snap.Total) {
					c.Violate("C10", "c10", "token-origins-do-not-sum-to-total", map[string]interface{}{"sum": sum.String(), "total": snap.Total.String()})
				}
				for k, w := range want {
					g, ok := got[k]
					if !ok {
						g = math.ZeroInt()
					}
					if g.Sub(w).Abs().GT(math.OneInt()) {
						c.Violate("C10", "c10", "token-origin-differs-from-staking", map[string]interface{}{"got": g.String(), "want": w.String()})
						break
					}
				}
				for k := range got {
					if _, ok := want[k]; !ok && got[k].IsPositive() && !m.jailedBonded(c, ctx, k) {
						dbg := ""
						for i := 20; i < 21 && i < len(k); i++ {
							if k[i] == '|' {
								v, err := c.App.StakingKeeper.GetValidator(ctx, sdk.ValAddress(k[i+1:]))
								sel, err2 := a.ReporterKeeper.Selectors.Get(ctx, []byte(k[:i]))
								dbg = fmt.Sprintf("validator status=%s jailed=%v err=%v; selector reporter=%s locked_until=%s err=%v now=%s", v.Status, v.Jailed, err, sdk.AccAddress(sel.Reporter), sel.LockedUntilTime, err2, now)
							}
						}
						c.Violate("C10", "c10", "token-origin-not-a-bonded-delegation-of-an-active-selector", map[string]interface{}{"amount": got[k].String(), "debug": dbg, "reporter": x.Creator})
						break
					}
				}
				// the same delegated stake must not back two different reporters' reports of one round (one reporting window)
				round := fmt.Sprintf("%x|%d|", qid, cur.Id)
				for k, amt := range got {
					if !amt.IsPositive() {
						continue
					}
					if u, ok := m.lastUse[round+k]; ok && u.reporter != x.Creator {
						m.st.Count("c10.double-count.within-unbonding=" + fmt.Sprint(now.Sub(u.at) < unbonding))
						if now.Sub(u.at) >= unbonding {
							continue // the statement only covers windows shorter than the unbonding period
						}
						// how did the stake get from the first reporter to the second? A switch is what the lock period is for; a
						// selector that a third party REMOVED (RemoveSelector) and that then joined or became a reporter again
						// carries no lock at all (recorded defect F39) - the two are told apart in the signature
						sig := "same-stake-counted-for-two-reporters-in-one-round"
						if len(k) >= 20 {
							if t, was := m.removedAt[k[:20]]; was && t.After(u.at) {
								sig += ":the-selector-was-removed-by-a-third-party-in-between"
							}
						}
						c.Violate("C10", "c10", sig, map[string]interface{}{"first": u.reporter, "second": x.Creator, "apart": now.Sub(u.at).String(), "selector": sdk.AccAddress([]byte(k[:minInt(20, len(k))])).String()})
						break
					}
				}
				for k, amt := range got {
					if amt.IsPositive() {
						m.lastUse[round+k] = useRec{x.Creator, now}
					}
				}
				m.st.Count("c10.double-count.evals")
			}
		case *reportertypes.MsgRemoveSelector:
			if m.removedAt == nil {
				m.removedAt = map[string]time.Time{}
			}
			if sa, err := sdk.AccAddressFromBech32(x.SelectorAddress); err == nil {
				m.removedAt[string(sa.Bytes())] = now
			}
		case *reportertypes.MsgSelectReporter, *reportertypes.MsgSwitchReporter:
			var selAddr, repAddr string
			if y, ok := x.(*reportertypes.MsgSelectReporter); ok {
				selAddr, repAddr = y.SelectorAddress, y.ReporterAddress
			} else {
				y := x.(*reportertypes.MsgSwitchReporter)
				selAddr, repAddr = y.SelectorAddress, y.ReporterAddress
			}
			m.st.Count("c10.join.evals")
			rep, err := a.ReporterKeeper.Reporters.Get(ctx, sdk.MustAccAddressFromBech32(repAddr).Bytes())
			if err != nil {
				c.Violate("C10", "c10", "selector-joined-non-existent-reporter", map[string]interface{}{"reporter": repAddr})
				continue
			}
			t, r, _, _ := bondedStake(c, ctx, sdk.MustAccAddressFromBech32(selAddr))
			m.st.Bucket("c10|join|%T|meets-min=%v", x, r.GTE(rep.MinTokensRequired))
			_ = t
			if r.LT(rep.MinTokensRequired) {
				c.Violate("C10", "c10", "selector-joined-below-reporter-minimum", map[string]interface{}{"bonded": r.String(), "min": rep.MinTokensRequired.String()})
			}
			if n := len(m.selectorsOf(c, ctx, sdk.MustAccAddressFromBech32(repAddr))); uint64(n) > params.MaxSelectors {
				c.Violate("C10", "c10", "reporter-has-more-selectors-than-cap", map[string]interface{}{"n": n, "cap": params.MaxSelectors})
			}
		case *reportertypes.MsgUnjailReporter:
			m.st.Count("c10.unjail.evals")
			if pre, ok := m.reporters[string(sdk.MustAccAddressFromBech32(x.ReporterAddress))]; ok {
				m.st.Bucket("c10|unjail|was-jailed=%v", pre.Jailed)
				if pre.Jailed && now.Before(pre.JailedUntil) {
					c.Violate("C10", "c10", "unjailed-before-jail-time-passed", map[string]interface{}{"until": pre.JailedUntil.String(), "now": now.String()})
				}
			}
		}
	}
	// "a jailed reporter cannot report until its jail time has passed": while a reporter stays jailed no transaction
	// moves its release time to an earlier moment, and none releases it before that moment
	for k, pre := range m.reporters {
		if !pre.Jailed {
			continue
		}
		post, err := a.ReporterKeeper.Reporters.Get(ctx, []byte(k))
		if err != nil {
			continue
		}
		m.st.Count("c10.jail-kept.evals")
		if post.Jailed && post.JailedUntil.Before(pre.JailedUntil) {
			m.st.Bucket("c10|jail-moved-earlier")
			c.Violate("C10", "c10", "release-time-of-a-jailed-reporter-moved-earlier", map[string]interface{}{"reporter": sdk.AccAddress(k).String(), "was": pre.JailedUntil.String(), "now": post.JailedUntil.String(), "tx": describe(tx.GetMsgs())})
		}
		if !post.Jailed && now.Before(pre.JailedUntil) {
			c.Violate("C10", "c10", "reporter-released-before-its-jail-time-passed", map[string]interface{}{"reporter": sdk.AccAddress(k).String(), "until": pre.JailedUntil.String(), "now": now.String(), "tx": describe(tx.GetMsgs())})
		}
	}
	// structural: every selector names an existing reporter
	_ = a.ReporterKeeper.Selectors.Walk(ctx, nil, func(k []byte, s reportertypes.Selection) (bool, error) {
		if has, _ := a.ReporterKeeper.Reporters.Has(ctx, s.Reporter); !has {
			c.Violate("C10", "c10", "selector-record-names-missing-reporter", map[string]interface{}{"selector": sdk.AccAddress(k).String()})
			return true, nil
		}
		return false, nil
	})
	m.refresh(c, ctx)
}

var _ = fmt.Sprintf

func (m *C10Monitor) jailedBonded(c *Chain, ctx sdk.Context, key string) bool {
	if len(key) > 21 { // 20-byte account address, '|', validator address
		v, err := c.App.StakingKeeper.GetValidator(ctx, sdk.ValAddress(key[21:]))
		return err == nil && v.IsBonded() && v.Jailed
	}
	return false
}
