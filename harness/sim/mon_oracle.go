package sim

import (
	"bytes"
	"fmt"
	"sort"
	"strings"
	"time"

	"github.com/ethereum/go-ethereum/accounts/abi"
	"github.com/tellor-io/layer/utils"
	bridgetypes "github.com/tellor-io/layer/x/bridge/types"
	disputetypes "github.com/tellor-io/layer/x/dispute/types"
	oraclekeeper "github.com/tellor-io/layer/x/oracle/keeper"
	oracletypes "github.com/tellor-io/layer/x/oracle/types"
	reportertypes "github.com/tellor-io/layer/x/reporter/types"

	"cosmossdk.io/collections"
	"cosmossdk.io/math"

	sdk "github.com/cosmos/cosmos-sdk/types"
	govv1 "github.com/cosmos/cosmos-sdk/x/gov/types/v1"
)

// bridgeQueryKind decodes query data as TRBBridge: returns (isBridge, toLayer).
func bridgeQueryKind(qd []byte) (bool, bool) {
	args := abi.Arguments{{Type: mustType("string")}, {Type: mustType("bytes")}}
	out, err := args.Unpack(qd)
	if err != nil || len(out) != 2 {
		return false, false
	}
	if s, ok := out[0].(string); !ok || s != "TRBBridge" {
		return false, false
	}
	inner := abi.Arguments{{Type: mustType("bool")}, {Type: mustType("uint256")}}
	o2, err := inner.Unpack(out[1].([]byte))
	if err != nil || len(o2) != 2 {
		return true, false
	}
	return true, o2[0].(bool)
}

// ---------------------------------------------------------------------------------------------
// C07: reports enter only an open round; each round aggregates exactly once

type C07Monitor struct {
	BaseMonitor
	st *Stats
	// shadow of the state before the next tx
	queries    map[string]oracletypes.QueryMeta // current meta per query id
	cycleQ     string                           // query id of the scheduled cycle list query
	cycleIdx   int
	cycleList  []string
	opened     map[string]bool // queryid|metaId of rounds opened by rotation (scheduled cycle-list rounds)
	aggregated map[string]bool // queryid|metaId
	s3         map[string]oracletypes.QueryMeta
	s3all      map[string]oracletypes.QueryMeta // key qid|id
	s3cycle    string
	s3idx      int
	s3list     []string
	govTouched bool
	holding    map[string]uint64 // queryid|metaId of rounds that hold an accepted report and have not been aggregated yet -> height of the last report
}

func NewC07Monitor(st *Stats) *C07Monitor {
	return &C07Monitor{st: st, opened: map[string]bool{}, aggregated: map[string]bool{}, holding: map[string]uint64{}}
}
func (m *C07Monitor) Name() string { return "c07" }

func allQueries(c *Chain, ctx sdk.Context) (cur map[string]oracletypes.QueryMeta, all map[string]oracletypes.QueryMeta) {
	cur, all = map[string]oracletypes.QueryMeta{}, map[string]oracletypes.QueryMeta{}
	_ = c.App.OracleKeeper.Query.Walk(ctx, nil, func(k collections.Pair[[]byte, uint64], q oracletypes.QueryMeta) (bool, error) {
		qid := string(k.K1())
		all[fmt.Sprintf("%x|%d", k.K1(), k.K2())] = q
		if old, ok := cur[qid]; !ok || q.Id > old.Id {
			cur[qid] = q
		}
		return false, nil
	})
	return
}

func cycleState(c *Chain, ctx sdk.Context) (cur string, idx int, list []string) {
	defer func() {
		if r := recover(); r != nil {
			cur, idx = "", -1
		}
	}()
	i, err := c.App.OracleKeeper.CyclelistSequencer.Peek(ctx)
	if err != nil {
		return "", -1, nil
	}
	qs, err := c.App.OracleKeeper.GetCyclelist(ctx)
	if err != nil {
		return "", -1, nil
	}
	for _, q := range qs {
		list = append(list, string(utils.QueryIDFromData(q)))
	}
	idx = int(i)
	if idx < len(list) {
		cur = list[idx]
	}
	return
}

func (m *C07Monitor) refresh(c *Chain, ctx sdk.Context) {
	m.queries, _ = allQueries(c, ctx)
	m.cycleQ, m.cycleIdx, m.cycleList = cycleState(c, ctx)
	// the scheduled query's current round counts as opened by rotation
	if q, ok := m.queries[m.cycleQ]; ok && q.CycleList {
		m.opened[fmt.Sprintf("%x|%d", m.cycleQ, q.Id)] = true
	}
}

func (m *C07Monitor) BeforeBlock(c *Chain, ctx sdk.Context)               { m.refresh(c, ctx); m.govTouched = false }
func (m *C07Monitor) BeginBlockExit(c *Chain, ctx sdk.Context, err error) { m.refresh(c, ctx) }

func (m *C07Monitor) AfterTx(c *Chain, ctx sdk.Context, tx sdk.Tx, ok bool) {
	if !ok {
		return
	}
	h := uint64(ctx.BlockHeight())
	for _, msg := range tx.GetMsgs() {
		switch x := msg.(type) {
		case *oracletypes.MsgUpdateCyclelist:
			m.govTouched = true
		case *oracletypes.MsgTip:
			// a tip that waits on a round without reports stays with the query: another tip (before or after the
			// window closed) only adds to it
			qid := string(QueryID(x.QueryData))
			if pq, had := m.queries[qid]; had && pq.Amount.IsPositive() && !pq.HasRevealedReports {
				m.st.Count("c07.tip-kept-by-tx.evals")
				m.st.Bucket("c07|retip|window-closed=%v", pq.Expiration < h)
				if cur, err := c.App.OracleKeeper.CurrentQuery(ctx, []byte(qid)); err != nil || cur.Amount.LT(pq.Amount.Add(x.Amount.Amount.Sub(x.Amount.Amount.MulRaw(2).QuoRaw(100)))) {
					c.Violate("C07", "c07", "waiting-tip-lost-when-the-query-was-tipped-again", map[string]interface{}{"before": pq.Amount.String(), "tip": x.Amount.Amount.String(), "after": cur.Amount.String(), "window_closed": pq.Expiration < h})
				}
			}
		case *oracletypes.MsgSubmitValue:
			m.st.Count("c07.accepted-report.evals")
			qid := string(QueryID(x.QueryData))
			isBridge, toLayer := bridgeQueryKind(x.QueryData)
			pq, had := m.queries[qid]
			tipped := had && pq.Amount.IsPositive()
			scheduled := had && m.opened[fmt.Sprintf("%x|%d", qid, pq.Id)] && pq.CycleList
			deposit := isBridge && toLayer
			rel := "n/a"
			if had {
				switch {
				case pq.Expiration == h:
					rel = "at-expiry"
				case pq.Expiration+1 == h:
					rel = "one-after"
				case pq.Expiration == h+1:
					rel = "one-before"
				case pq.Expiration > h:
					rel = "open"
				default:
					rel = "closed"
				}
			}
			m.st.Bucket("c07|accepted|tip=%v|scheduled=%v|deposit=%v|expiry=%s", tipped, scheduled, deposit, rel)
			if isBridge && !toLayer {
				c.Violate("C07", "c07", "report-accepted-for-bridge-withdrawal-query", map[string]interface{}{"reporter": x.Creator})
			}
			if !tipped && !scheduled && !deposit {
				c.Violate("C07", "c07", "report-accepted-without-tip-cycle-or-deposit", map[string]interface{}{"query_id": fmt.Sprintf("%x", qid), "had_round": had, "cyclelist_flag": pq.CycleList})
			}
			if had && !deposit && pq.Expiration < h {
				c.Violate("C07", "c07", "report-accepted-after-window-closed", map[string]interface{}{"expiration": pq.Expiration, "height": h})
			}
			// reporter not jailed, has the minimum stake; the later report replaces the earlier one
			addr := sdk.MustAccAddressFromBech32(x.Creator)
			if rep, err := c.App.ReporterKeeper.Reporters.Get(ctx, addr.Bytes()); err == nil && rep.Jailed {
				c.Violate("C07", "c07", "report-accepted-from-jailed-reporter", map[string]interface{}{"reporter": x.Creator})
			}
			// the accepted report sits in a round that exists and is marked as holding reports (else it is never aggregated)
			inRound := 0
			_ = c.App.OracleKeeper.Reports.Walk(ctx, collections.NewSuperPrefixedTripleRange[[]byte, []byte, uint64]([]byte(qid), addr.Bytes()), func(k collections.Triple[[]byte, []byte, uint64], r oracletypes.MicroReport) (bool, error) {
				if r.BlockNumber != h {
					return false, nil
				}
				inRound++
				m.holding[fmt.Sprintf("%x|%d", qid, k.K3())] = h
				q, err := c.App.OracleKeeper.Query.Get(ctx, collections.Join([]byte(qid), k.K3()))
				if err != nil || !q.HasRevealedReports {
					c.Violate("C07", "c07", "accepted-report-stored-under-a-round-that-does-not-exist-or-is-not-marked", map[string]interface{}{"reporter": x.Creator, "meta_id": k.K3(), "round_found": err == nil, "expiry": rel, "deposit": deposit})
				} else if q.Expiration < h && !deposit {
					c.Violate("C07", "c07", "accepted-report-stored-in-a-closed-round", map[string]interface{}{"meta_id": k.K3(), "expiration": q.Expiration, "height": h})
				}
				return false, nil
			})
			if inRound == 0 {
				c.Violate("C07", "c07", "accepted-report-not-stored", map[string]interface{}{"reporter": x.Creator, "expiry": rel})
			}
			cur, err := c.App.OracleKeeper.CurrentQuery(ctx, []byte(qid))
			if err == nil {
				stored, err := c.App.OracleKeeper.Reports.Get(ctx, collections.Join3([]byte(qid), addr.Bytes(), cur.Id))
				if err != nil {
					c.Violate("C07", "c07", "accepted-report-not-stored", map[string]interface{}{"reporter": x.Creator})
				} else {
					if stored.Value != utils.Remove0xPrefix(x.Value) {
						c.Violate("C07", "c07", "stored-report-is-not-the-latest-value", map[string]interface{}{"stored": stored.Value, "submitted": x.Value})
					}
					params, _ := c.App.OracleKeeper.Params.Get(ctx)
					if math.NewIntFromUint64(stored.Power).MulRaw(1_000_000).AddRaw(999_999).LT(params.MinStakeAmount) {
						c.Violate("C07", "c07", "report-accepted-below-minimum-stake", map[string]interface{}{"power": stored.Power, "min": params.MinStakeAmount.String()})
					}
					// ... and in loya, not in whole tokens: the bonded stake of the reporter's unlocked selectors, recomputed from
					// x/staking (upper estimate: shares rounded up, validators jailed earlier in this block still counted)
					upper := math.ZeroInt()
					_ = c.App.ReporterKeeper.Selectors.Walk(ctx, nil, func(k []byte, sel reportertypes.Selection) (bool, error) {
						if string(sel.Reporter) == string(addr.Bytes()) && !sel.LockedUntilTime.After(ctx.BlockTime()) {
							_, r, _, _ := bondedStake(c, ctx, sdk.AccAddress(k))
							upper = upper.Add(r)
						}
						return false, nil
					})
					m.st.Bucket("c07|min-stake|min-is-whole-tokens=%v|stake-below-next-whole-token-above-min=%v", params.MinStakeAmount.ModRaw(1_000_000).IsZero(), upper.LT(params.MinStakeAmount.QuoRaw(1_000_000).AddRaw(1).MulRaw(1_000_000)))
					if upper.LT(params.MinStakeAmount) {
						c.Violate("C07", "c07", "report-accepted-with-stake-below-the-minimum", map[string]interface{}{"stake_at_most": upper.String(), "min": params.MinStakeAmount.String(), "reporter": x.Creator})
					}
				}
			}
		}
	}
	m.refresh(c, ctx)
}

func (m *C07Monitor) EndBlockEntry(c *Chain, ctx sdk.Context) {
	m.s3, m.s3all = allQueries(c, ctx)
	m.s3cycle, m.s3idx, m.s3list = cycleState(c, ctx)
}

func (m *C07Monitor) EndBlockExit(c *Chain, ctx sdk.Context, err error) {
	if err != nil {
		return
	}
	h := uint64(ctx.BlockHeight())
	_, all4 := allQueries(c, ctx)
	// expected: every round with reports whose window closes now
	expect := map[string]oracletypes.QueryMeta{}
	for k, q := range m.s3all {
		if q.HasRevealedReports && q.Expiration <= h {
			expect[k] = q
		}
	}
	// aggregates created in this block by aggregation (not withdrawals)
	got := map[string]bool{}
	for _, agg := range c.App.OracleKeeper.GetAggregatedReportsByHeight(ctx, h) {
		if len(agg.Reporters) == 0 {
			continue // bridge withdrawal aggregate written by a tx
		}
		k := fmt.Sprintf("%x|%d", agg.QueryId, agg.MetaId)
		if got[k] {
			c.Violate("C07", "c07", "round-aggregated-twice-in-one-block", map[string]interface{}{"round": k})
		}
		got[k] = true
		if m.aggregated[k] {
			c.Violate("C07", "c07", "round-aggregated-again", map[string]interface{}{"round": k})
		}
		m.aggregated[k] = true
	}
	if len(expect) > 0 || len(got) > 0 {
		m.st.Count("c07.aggregation.evals")
		m.st.Bucket("c07|endblock|expiring=%d|aggregated=%d", minInt(len(expect), 4), minInt(len(got), 4))
	}
	for k := range expect {
		if !got[k] {
			c.Violate("C07", "c07", "expired-round-with-reports-not-aggregated", map[string]interface{}{"round": k, "height": h, "expiring_together": len(expect)})
		}
		if _, still := all4[k]; still {
			c.Violate("C07", "c07", "aggregated-round-not-removed", map[string]interface{}{"round": k})
		}
	}
	for k := range got {
		if _, ok := expect[k]; !ok {
			c.Violate("C07", "c07", "aggregate-for-round-that-was-not-expiring", map[string]interface{}{"round": k, "height": h})
		}
	}
	// "each round aggregates exactly once": a round that took in an accepted report is either still there, waiting for
	// its window to close, or it has been aggregated - it never just disappears (whoever removed it, a transaction
	// or an end blocker)
	for k, at := range m.holding {
		if m.aggregated[k] {
			delete(m.holding, k)
			continue
		}
		m.st.Count("c07.round-with-reports-still-there.evals")
		if _, still := all4[k]; !still {
			c.Violate("C07", "c07", "round-holding-reports-disappeared-without-being-aggregated", map[string]interface{}{"round": k, "last_report_height": at, "height": h})
			delete(m.holding, k)
		}
	}
	// a tipped round without reports keeps its tip
	for k, q := range m.s3all {
		if q.Amount.IsPositive() && !q.HasRevealedReports {
			q4, ok := all4[k]
			if !ok || !q4.Amount.Equal(q.Amount) {
				c.Violate("C07", "c07", "tip-of-round-without-reports-lost", map[string]interface{}{"round": k, "amount": q.Amount.String(), "still_there": ok})
			}
			m.st.Count("c07.tip-kept.evals")
		}
	}
	// rotation
	c4, i4, l4 := cycleState(c, ctx)
	// a governance proposal replacing the cycle list executes in the gov end blocker of this same block
	_ = c.App.GovKeeper.Proposals.Walk(ctx, nil, func(id uint64, p govv1.Proposal) (bool, error) {
		if p.Status == govv1.StatusPassed && p.VotingEndTime != nil && p.VotingEndTime.After(c.Time) && !p.VotingEndTime.After(ctx.BlockTime()) {
			for _, any := range p.Messages {
				if strings.Contains(any.TypeUrl, "MsgUpdateCyclelist") {
					m.govTouched = true
				}
			}
		}
		return false, nil
	})
	if m.s3cycle != "" && c4 != "" && !m.govTouched && strings.Join(m.s3list, "") == strings.Join(l4, "") {
		m.st.Count("c07.rotation.evals")
		if c4 != m.s3cycle {
			q3, had := m.s3[m.s3cycle]
			m.st.Bucket("c07|rotated|prev-had-round=%v|wrap=%v", had, i4 == 0)
			if had && q3.Expiration > h {
				c.Violate("C07", "c07", "cycle-list-moved-while-window-open", map[string]interface{}{"expiration": q3.Expiration, "height": h})
			}
			want := (m.s3idx + 1) % len(l4)
			if i4 != want {
				c.Violate("C07", "c07", "cycle-list-did-not-move-to-next-element", map[string]interface{}{"from": m.s3idx, "to": i4, "len": len(l4)})
			}
		}
	}
	m.refresh(c, ctx)
}

// ---------------------------------------------------------------------------------------------
// C08: aggregate history is append-only, time-ordered and correctly retrievable

type aggRec struct {
	ts  uint64
	agg oracletypes.Aggregate
}

type C08Monitor struct {
	BaseMonitor
	st           *Stats
	hist         map[string][]aggRec // per query id, chronological
	allowFlag    map[string]bool     // qid|reporter|microheight allowed to be flagged in this block
	snapSeen     map[string]bool
	blocks       int
	fundedBefore map[string]bool // reports with a fully paid dispute before the transaction being executed
}

func NewC08Monitor(st *Stats) *C08Monitor {
	return &C08Monitor{st: st, hist: map[string][]aggRec{}, allowFlag: map[string]bool{}, snapSeen: map[string]bool{}}
}
func (m *C08Monitor) Name() string { return "c08" }

func (m *C08Monitor) BeforeBlock(c *Chain, ctx sdk.Context) { m.allowFlag = map[string]bool{} }

// fundedEvidence: the reports about which a dispute exists whose whole fee has been paid.
func fundedEvidence(c *Chain, ctx sdk.Context) map[string]bool {
	out := map[string]bool{}
	_ = c.App.DisputeKeeper.Disputes.Walk(ctx, nil, func(_ uint64, d disputetypes.Dispute) (bool, error) {
		if d.SlashAmount.IsPositive() && d.FeeTotal.GTE(d.SlashAmount) {
			e := d.InitialEvidence
			out[fmt.Sprintf("%x|%s|%d", e.QueryId, e.Reporter, e.BlockNumber)] = true
		}
		return false, nil
	})
	return out
}

func (m *C08Monitor) BeforeTx(c *Chain, ctx sdk.Context, tx sdk.Tx) {
	m.fundedBefore = nil
	for _, msg := range tx.GetMsgs() {
		switch msg.(type) {
		case *disputetypes.MsgProposeDispute, *disputetypes.MsgAddFeeToDispute:
			m.fundedBefore = fundedEvidence(c, ctx)
		}
	}
}

// mustBeFlagged: "an aggregate becomes flagged when the report that determined it is disputed" - every stored aggregate
// of the report's query whose determining report is this one (same reporter, same block) carries the flag now.
func (m *C08Monitor) mustBeFlagged(c *Chain, ctx sdk.Context, r oracletypes.MicroReport, why string) {
	_ = c.App.OracleKeeper.Aggregates.Walk(ctx, collections.NewPrefixedPairRange[[]byte, uint64](r.QueryId), func(k collections.Pair[[]byte, uint64], a oracletypes.Aggregate) (bool, error) {
		if a.MicroHeight != r.BlockNumber || int(a.AggregateReportIndex) >= len(a.Reporters) || a.Reporters[a.AggregateReportIndex].Reporter != r.Reporter {
			return false, nil
		}
		m.st.Count("c08.disputed-report-flags-its-aggregate.evals")
		others := 0
		if it, err := c.App.OracleKeeper.Aggregates.Indexes.MicroHeight.MatchExact(ctx, a.MicroHeight); err == nil {
			for ; it.Valid(); it.Next() {
				others++
			}
			it.Close()
		}
		m.st.Bucket("c08|disputed-determining-report|%s|aggregates-with-that-micro-height=%d", why, minInt(others, 3))
		if !a.Flagged {
			c.Violate("C08", "c08", "aggregate-not-flagged-although-its-determining-report-is-disputed", map[string]interface{}{"query_id": fmt.Sprintf("%x", r.QueryId), "ts": k.K2(), "reporter": r.Reporter, "how": why, "aggregates_with_that_micro_height": others})
		}
		return false, nil
	})
}

func (m *C08Monitor) AfterTx(c *Chain, ctx sdk.Context, tx sdk.Tx, ok bool) {
	if !ok {
		return
	}
	if m.fundedBefore != nil {
		after := fundedEvidence(c, ctx)
		for _, msg := range tx.GetMsgs() {
			var e oracletypes.MicroReport
			switch x := msg.(type) {
			case *disputetypes.MsgProposeDispute:
				if x.Report == nil {
					continue
				}
				e = *x.Report
			case *disputetypes.MsgAddFeeToDispute:
				d, err := c.App.DisputeKeeper.Disputes.Get(ctx, x.DisputeId)
				if err != nil {
					continue
				}
				e = d.InitialEvidence
			default:
				continue
			}
			key := fmt.Sprintf("%x|%s|%d", e.QueryId, e.Reporter, e.BlockNumber)
			if after[key] && !m.fundedBefore[key] {
				m.mustBeFlagged(c, ctx, e, "dispute-funded")
			}
		}
	}
	for _, msg := range tx.GetMsgs() {
		if x, is := msg.(*disputetypes.MsgAddEvidence); is {
			for _, r := range x.Reports {
				if r != nil {
					m.mustBeFlagged(c, ctx, *r, "evidence-added")
				}
			}
		}
	}
	allow := func(r oracletypes.MicroReport) {
		m.allowFlag[fmt.Sprintf("%x|%s|%d", r.QueryId, r.Reporter, r.BlockNumber)] = true
	}
	for _, msg := range tx.GetMsgs() {
		switch x := msg.(type) {
		case *disputetypes.MsgProposeDispute:
			if x.Report != nil {
				allow(*x.Report)
			}
		case *disputetypes.MsgAddFeeToDispute:
			if d, err := c.App.DisputeKeeper.Disputes.Get(ctx, x.DisputeId); err == nil {
				allow(d.InitialEvidence)
			}
		case *disputetypes.MsgAddEvidence:
			for _, r := range x.Reports {
				if r != nil {
					allow(*r)
				}
			}
		}
	}
}

func (m *C08Monitor) AfterCommit(c *Chain, ctx sdk.Context, br *BlockResult) {
	k := c.App.OracleKeeper
	now := map[string][]aggRec{}
	_ = k.Aggregates.Walk(ctx, nil, func(key collections.Pair[[]byte, uint64], a oracletypes.Aggregate) (bool, error) {
		now[string(key.K1())] = append(now[string(key.K1())], aggRec{key.K2(), a})
		return false, nil
	})
	m.st.Count("c08.history.evals")
	for qid, old := range m.hist {
		cur := now[qid]
		if len(cur) < len(old) {
			c.Violate("C08", "c08", "aggregate-removed", map[string]interface{}{"query_id": fmt.Sprintf("%x", qid), "before": len(old), "after": len(cur)})
			continue
		}
		for i, o := range old {
			n := cur[i]
			if n.ts != o.ts {
				c.Violate("C08", "c08", "aggregate-timestamp-changed-or-inserted-before-end", map[string]interface{}{"query_id": fmt.Sprintf("%x", qid), "index": i})
				break
			}
			a, b := o.agg, n.agg
			flagFlip := !a.Flagged && b.Flagged
			a.Flagged, b.Flagged = false, false
			ab, _ := a.Marshal()
			bb, _ := b.Marshal()
			if !bytes.Equal(ab, bb) {
				c.Violate("C08", "c08", "stored-aggregate-altered", map[string]interface{}{"query_id": fmt.Sprintf("%x", qid), "ts": o.ts, "same_block_overwrite": n.agg.Height == uint64(br.Height)})
				continue
			}
			if o.agg.Flagged && !n.agg.Flagged {
				c.Violate("C08", "c08", "aggregate-unflagged", map[string]interface{}{"query_id": fmt.Sprintf("%x", qid), "ts": o.ts})
			}
			if flagFlip {
				m.st.Count("c08.flag.evals")
				m.st.Bucket("c08|flagged")
				rep := ""
				if int(n.agg.AggregateReportIndex) < len(n.agg.Reporters) {
					rep = n.agg.Reporters[n.agg.AggregateReportIndex].Reporter
				}
				if !m.allowFlag[fmt.Sprintf("%x|%s|%d", qid, rep, n.agg.MicroHeight)] {
					c.Violate("C08", "c08", "aggregate-flagged-without-dispute-on-its-determining-report", map[string]interface{}{"query_id": fmt.Sprintf("%x", qid), "ts": o.ts, "reporter": rep})
				}
			}
		}
		// new entries: strictly increasing timestamps, index +1
		for i := len(old); i < len(cur); i++ {
			if i > 0 {
				if cur[i].ts <= cur[i-1].ts {
					c.Violate("C08", "c08", "aggregate-timestamps-not-increasing", map[string]interface{}{"query_id": fmt.Sprintf("%x", qid)})
				}
				if cur[i].agg.Index != cur[i-1].agg.Index+1 {
					c.Violate("C08", "c08", "aggregate-index-not-plus-one", map[string]interface{}{"query_id": fmt.Sprintf("%x", qid), "prev": cur[i-1].agg.Index, "new": cur[i].agg.Index})
				}
			}
		}
	}
	for qid, cur := range now {
		if _, ok := m.hist[qid]; !ok {
			for i := range cur {
				if i == 0 && cur[i].agg.Index != 1 {
					c.Violate("C08", "c08", "first-aggregate-index-not-one", map[string]interface{}{"query_id": fmt.Sprintf("%x", qid), "index": cur[i].agg.Index})
				}
				if i > 0 && (cur[i].ts <= cur[i-1].ts || cur[i].agg.Index != cur[i-1].agg.Index+1) {
					c.Violate("C08", "c08", "aggregate-order-broken", map[string]interface{}{"query_id": fmt.Sprintf("%x", qid)})
				}
			}
		}
	}
	// an aggregate written twice in one block (same query id and block time) shows as a count mismatch with the nonce
	for qid, cur := range now {
		if n, err := k.Nonces.Get(ctx, []byte(qid)); err == nil && int(n) > len(cur) && !m.snapSeen["ow:"+qid] {
			m.snapSeen["ow:"+qid] = true
			c.Violate("C08", "c08", "aggregate-overwritten-same-timestamp", map[string]interface{}{"query_id": fmt.Sprintf("%x", qid), "nonce": n, "stored": len(cur)})
		}
	}
	m.hist = now
	m.checkSnapshots(c, ctx)
	m.blocks++
	if m.blocks%8 == 0 {
		m.probe(c, ctx)
	}
}

func (m *C08Monitor) checkSnapshots(c *Chain, ctx sdk.Context) {
	_ = c.App.BridgeKeeper.AttestSnapshotDataMap.Walk(ctx, nil, func(key []byte, d bridgetypes.AttestationSnapshotData) (bool, error) {
		if m.snapSeen[string(key)] {
			return false, nil
		}
		m.snapSeen[string(key)] = true
		list := m.hist[string(d.QueryId)]
		var prev, next uint64
		found := false
		for i, r := range list {
			if r.ts == d.Timestamp {
				found = true
				if i > 0 {
					prev = list[i-1].ts
				}
				if i+1 < len(list) {
					next = list[i+1].ts
				}
			}
		}
		m.st.Count("c08.snapshot.evals")
		m.st.Bucket("c08|snapshot|prev=%v|next=%v", prev != 0, next != 0)
		if !found {
			c.Violate("C08", "c08", "snapshot-for-unknown-aggregate", map[string]interface{}{"ts": d.Timestamp})
			return false, nil
		}
		// a snapshot requested by a transaction is taken before this block's end blocker adds its aggregates:
		// a neighbour created later in the same block is not part of the list "at snapshot time"
		if d.NextReportTimestamp == 0 && next != 0 && d.AttestationTimestamp == uint64(ctx.BlockTime().UnixMilli()) && next == uint64(ctx.BlockTime().UnixMilli()) {
			next = 0
		}
		if d.PrevReportTimestamp != prev || d.NextReportTimestamp != next {
			c.Violate("C08", "c08", "snapshot-neighbour-timestamps-wrong", map[string]interface{}{"ts": d.Timestamp, "prev": d.PrevReportTimestamp, "want_prev": prev, "next": d.NextReportTimestamp, "want_next": next})
		}
		return false, nil
	})
}

// probe compares every getter with what the chronological list implies.
func (m *C08Monitor) probe(c *Chain, ctx sdk.Context) {
	k := c.App.OracleKeeper
	q := oraclekeeper.NewQuerier(k)
	qids := make([]string, 0, len(m.hist))
	for qid := range m.hist {
		qids = append(qids, qid)
	}
	sort.Strings(qids)
	for _, qid := range qids {
		list := m.hist[qid]
		if len(list) == 0 || len(list) > 60 {
			continue
		}
		id := []byte(qid)
		flagged := 0
		for _, r := range list {
			if r.agg.Flagged {
				flagged++
			}
		}
		m.st.Bucket("c08|probe|len=%d|flagged=%d", minInt(len(list), 5), minInt(flagged, 3))
		// current
		cur, ts, err := k.GetCurrentAggregateReport(ctx, id)
		m.st.Count("c08.getter.evals")
		last := list[len(list)-1]
		if err != nil || cur == nil || uint64(ts.UnixMilli()) != last.ts || cur.Index != last.agg.Index {
			c.Violate("C08", "c08", "getter:current", map[string]interface{}{"query_id": fmt.Sprintf("%x", qid), "err": fmt.Sprint(err)})
		}
		// by index
		for i := 0; i <= len(list); i++ {
			a, t, err := k.GetAggregateByIndex(ctx, id, uint64(i))
			m.st.Count("c08.getter.evals")
			if i < len(list) {
				if err != nil || a == nil || uint64(t.UnixMilli()) != list[i].ts {
					c.Violate("C08", "c08", "getter:by-index", map[string]interface{}{"i": i, "len": len(list), "err": fmt.Sprint(err)})
				}
			} else if err == nil && a != nil {
				c.Violate("C08", "c08", "getter:by-index-out-of-range-returned-data", map[string]interface{}{"i": i, "len": len(list)})
			}
		}
		// probes around every stored timestamp
		probes := []uint64{1, list[0].ts - 1, last.ts + 1, 1 << 62}
		for _, r := range list {
			probes = append(probes, r.ts-1, r.ts, r.ts+1)
		}
		for _, p := range probes {
			pt := time.UnixMilli(int64(p))
			// timestamp before (strictly), any flag
			var wantBefore, wantAfter uint64
			var wantData *aggRec
			for i := range list {
				if list[i].ts < p {
					wantBefore = list[i].ts
					if !list[i].agg.Flagged {
						wantData = &list[i]
					}
				}
				if list[i].ts > p && wantAfter == 0 {
					wantAfter = list[i].ts
				}
			}
			tb, err := k.GetTimestampBefore(ctx, id, pt)
			m.st.Count("c08.getter.evals")
			if (wantBefore == 0) != (err != nil) || (err == nil && uint64(tb.UnixMilli()) != wantBefore) {
				c.Violate("C08", "c08", "getter:timestamp-before", map[string]interface{}{"probe": p, "want": wantBefore, "err": fmt.Sprint(err)})
			}
			ta, err := k.GetTimestampAfter(ctx, id, pt)
			m.st.Count("c08.getter.evals")
			if (wantAfter == 0) != (err != nil) || (err == nil && uint64(ta.UnixMilli()) != wantAfter) {
				c.Violate("C08", "c08", "getter:timestamp-after", map[string]interface{}{"probe": p, "want": wantAfter, "err": fmt.Sprint(err)})
			}
			ab, tab, err := k.GetAggregateBefore(ctx, id, pt)
			m.st.Count("c08.getter.evals")
			if (wantData == nil) != (err != nil) || (err == nil && (uint64(tab.UnixMilli()) != wantData.ts || ab.Index != wantData.agg.Index)) {
				c.Violate("C08", "c08", "getter:aggregate-before", map[string]interface{}{"probe": p, "err": fmt.Sprint(err)})
			}
			res, err := q.GetDataBefore(ctx, &oracletypes.QueryGetDataBeforeRequest{QueryId: fmt.Sprintf("%x", qid), Timestamp: p})
			m.st.Count("c08.getter.evals")
			if (wantData == nil) != (err != nil) || (err == nil && (res.Timestamp != wantData.ts || res.Aggregate == nil || res.Aggregate.Index != wantData.agg.Index)) {
				c.Violate("C08", "c08", "getter:data-before", map[string]interface{}{"probe": p, "err": fmt.Sprint(err)})
			}
			// by timestamp
			at, err := k.GetAggregateByTimestamp(ctx, id, pt)
			m.st.Count("c08.getter.evals")
			var exact *aggRec
			for i := range list {
				if list[i].ts == p {
					exact = &list[i]
				}
			}
			if (exact == nil) != (err != nil) || (err == nil && at.Index != exact.agg.Index) {
				c.Violate("C08", "c08", "getter:by-timestamp", map[string]interface{}{"probe": p, "err": fmt.Sprint(err)})
			}
		}
	}
}
