package sim

import (
	"bytes"
	"encoding/hex"
	"encoding/json"
	"fmt"
	"reflect"

	abci "github.com/cometbft/cometbft/abci/types"
	cmtproto "github.com/cometbft/cometbft/proto/tendermint/types"
	"github.com/tellor-io/layer/app"
)

// ProposalLab (C17): every honest proposal of a history is re-submitted to ProcessProposal with one element of
// the injected bridge data changed; a changed proposal must be rejected, the unchanged one accepted, and no
// handler may panic on arbitrary bytes (recovered panics are read from baseapp's log).
type ProposalLab struct {
	st  *Stats
	r   *Rng
	per int
}

func NewProposalLab(st *Stats, r *Rng, perBlock int) *ProposalLab {
	return &ProposalLab{st: st, r: r, per: perBlock}
}

func (p *ProposalLab) Attach(c *Chain) {
	c.OnProposal = p.onProposal
}

func clone(v app.VoteExtTx) app.VoteExtTx {
	bz, _ := json.Marshal(v)
	var out app.VoteExtTx
	_ = json.Unmarshal(bz, &out)
	return out
}

func (p *ProposalLab) process(c *Chain, req *abci.RequestProcessProposal, first []byte) (abci.ResponseProcessProposal_ProposalStatus, error) {
	r2 := *req
	r2.Txs = append([][]byte{first}, req.Txs[1:]...)
	res, err := c.App.ProcessProposal(&r2)
	if err != nil {
		return abci.ResponseProcessProposal_UNKNOWN, err
	}
	return res.Status, nil
}

func (p *ProposalLab) panics(c *Chain, what string) {
	if c.PanicLog == nil {
		return
	}
	for _, e := range c.PanicLog.Take() {
		c.Violate("C17", "proposal", "handler-panic:"+NormalizeErr(e), map[string]interface{}{"during": what, "log": firstLines(e, 3)})
	}
}

func (p *ProposalLab) onProposal(c *Chain, req *abci.RequestProcessProposal, ec abci.ExtendedCommitInfo) {
	p.panics(c, "honest-proposal")
	var orig app.VoteExtTx
	if err := json.Unmarshal(req.Txs[0], &orig); err != nil {
		c.Violate("C17", "proposal", "prepared-injected-tx-not-json", nil)
		return
	}
	p.st.Count("c17.honest-proposal-accepted.evals")
	nOps, nSigs, nAtt := len(orig.OpAndEVMAddrs.OperatorAddresses), len(orig.ValsetSigs.OperatorAddresses), len(orig.OracleAttestations.OperatorAddresses)
	absent := 0
	for _, v := range ec.Votes {
		if v.BlockIdFlag != 2 {
			absent++
		}
	}
	p.st.Bucket("c17|proposal|evm=%d|valsetsigs=%d|attestations=%d|non-commit-votes=%d", minInt(nOps, 3), minInt(nSigs, 3), minInt(nAtt, 3), minInt(absent, 2))
	junk := func(n int) []byte { return randBytes(p.r, n) }
	for i := 0; i < p.per; i++ {
		m := clone(orig)
		kind := p.r.Pick(16)
		name := ""
		pickIdx := func(n int) int {
			if n == 0 {
				return -1
			}
			return p.r.Pick(n)
		}
		switch kind {
		case 0: // replace an EVM address
			if j := pickIdx(nOps); j >= 0 {
				m.OpAndEVMAddrs.EVMAddresses[j] = "0x" + fmt.Sprintf("%040x", junk(20))
			} else {
				m.OpAndEVMAddrs.OperatorAddresses = []string{c.W.Vals[0].ValAdr.String()}
				m.OpAndEVMAddrs.EVMAddresses = []string{"0x" + fmt.Sprintf("%040x", junk(20))}
			}
			name = "evm-address"
		case 1: // replace / add operator
			if j := pickIdx(nOps); j >= 0 {
				m.OpAndEVMAddrs.OperatorAddresses[j] = c.W.Vals[p.r.Pick(len(c.W.Vals))].ValAdr.String() + "x"
			} else {
				m.OpAndEVMAddrs.OperatorAddresses = append(m.OpAndEVMAddrs.OperatorAddresses, c.W.Vals[0].ValAdr.String())
				m.OpAndEVMAddrs.EVMAddresses = append(m.OpAndEVMAddrs.EVMAddresses, "0x00")
			}
			name = "evm-operator"
		case 2: // drop an EVM registration
			if nOps == 0 {
				continue
			}
			m.OpAndEVMAddrs.OperatorAddresses = m.OpAndEVMAddrs.OperatorAddresses[1:]
			m.OpAndEVMAddrs.EVMAddresses = m.OpAndEVMAddrs.EVMAddresses[1:]
			name = "evm-drop"
		case 3: // valset signature replaced
			if j := pickIdx(nSigs); j >= 0 {
				m.ValsetSigs.Signatures[j] = fmt.Sprintf("%x", junk(64))
			} else {
				m.ValsetSigs.OperatorAddresses = []string{c.W.Vals[0].ValAdr.String()}
				m.ValsetSigs.Timestamps = []int64{1}
				m.ValsetSigs.Signatures = []string{fmt.Sprintf("%x", junk(64))}
			}
			name = "valsetsig-signature"
		case 4: // timestamp changed
			if j := pickIdx(nSigs); j >= 0 {
				m.ValsetSigs.Timestamps[j]++
			} else {
				continue
			}
			name = "valsetsig-timestamp"
		case 5: // signature attributed to another operator
			if nSigs >= 2 {
				m.ValsetSigs.OperatorAddresses[0], m.ValsetSigs.OperatorAddresses[1] = m.ValsetSigs.OperatorAddresses[1], m.ValsetSigs.OperatorAddresses[0]
				if m.ValsetSigs.OperatorAddresses[0] == m.ValsetSigs.OperatorAddresses[1] {
					continue
				}
			} else if nSigs == 1 {
				m.ValsetSigs.OperatorAddresses[0] = c.W.Vals[p.r.Pick(len(c.W.Vals))].ValAdr.String()
				if m.ValsetSigs.OperatorAddresses[0] == orig.ValsetSigs.OperatorAddresses[0] {
					continue
				}
			} else {
				continue
			}
			name = "valsetsig-cross-validator"
		case 6: // duplicate a valset signature
			if nSigs == 0 {
				continue
			}
			m.ValsetSigs.OperatorAddresses = append(m.ValsetSigs.OperatorAddresses, m.ValsetSigs.OperatorAddresses[0])
			m.ValsetSigs.Timestamps = append(m.ValsetSigs.Timestamps, m.ValsetSigs.Timestamps[0])
			m.ValsetSigs.Signatures = append(m.ValsetSigs.Signatures, m.ValsetSigs.Signatures[0])
			name = "valsetsig-duplicate"
		case 7: // attestation replaced
			if j := pickIdx(nAtt); j >= 0 {
				m.OracleAttestations.Attestations[j] = junk(64)
			} else {
				m.OracleAttestations.OperatorAddresses = []string{c.W.Vals[0].ValAdr.String()}
				m.OracleAttestations.Attestations = [][]byte{junk(64)}
				m.OracleAttestations.Snapshots = [][]byte{junk(32)}
			}
			name = "attestation-signature"
		case 8: // snapshot replaced
			if j := pickIdx(nAtt); j >= 0 {
				m.OracleAttestations.Snapshots[j] = junk(32)
			} else {
				continue
			}
			name = "attestation-snapshot"
		case 9: // attestation moved to another operator
			if j := pickIdx(nAtt); j >= 0 {
				o := c.W.Vals[p.r.Pick(len(c.W.Vals))].ValAdr.String()
				if o == m.OracleAttestations.OperatorAddresses[j] {
					continue
				}
				m.OracleAttestations.OperatorAddresses[j] = o
			} else {
				continue
			}
			name = "attestation-cross-validator"
		case 10: // drop an attestation
			if nAtt == 0 {
				continue
			}
			m.OracleAttestations.OperatorAddresses = m.OracleAttestations.OperatorAddresses[:nAtt-1]
			m.OracleAttestations.Attestations = m.OracleAttestations.Attestations[:nAtt-1]
			m.OracleAttestations.Snapshots = m.OracleAttestations.Snapshots[:nAtt-1]
			name = "attestation-drop"
		case 11: // swap two attestations
			if nAtt < 2 {
				continue
			}
			a := m.OracleAttestations
			a.Attestations[0], a.Attestations[1] = a.Attestations[1], a.Attestations[0]
			if reflect.DeepEqual(a.Attestations, orig.OracleAttestations.Attestations) {
				continue
			}
			name = "attestation-swap"
		case 12: // a vote extension inside the injected commit altered (signature no longer fits)
			if len(m.ExtendedCommitInfo.Votes) == 0 {
				continue
			}
			j := p.r.Pick(len(m.ExtendedCommitInfo.Votes))
			if m.ExtendedCommitInfo.Votes[j].BlockIdFlag != 2 {
				continue
			}
			m.ExtendedCommitInfo.Votes[j].VoteExtension = append([]byte(" "), m.ExtendedCommitInfo.Votes[j].VoteExtension...)
			name = "commit-extension-altered"
		case 13: // a vote dropped from the injected commit
			if len(m.ExtendedCommitInfo.Votes) < 2 {
				continue
			}
			m.ExtendedCommitInfo.Votes = m.ExtendedCommitInfo.Votes[1:]
			name = "commit-vote-dropped"
		case 14: // arbitrary bytes instead of the injected tx
			b := [][]byte{nil, []byte("{"), []byte("null"), []byte("[]"), junk(1 + p.r.Pick(200)), req.Txs[0][:len(req.Txs[0])/2], []byte(`{"block_height":"x"}`), []byte(`{"op_and_evm_addrs":{"operator_addresses":["a"],"evm_addresses":[]}}`)}[p.r.Pick(8)]
			st, err := p.process(c, req, b)
			p.st.Count("c17.arbitrary-bytes.evals")
			p.st.Bucket("c17|arbitrary-injected-tx|status=%s", st)
			p.panics(c, "arbitrary-injected-tx")
			if err == nil && st == abci.ResponseProcessProposal_ACCEPT {
				var probe app.VoteExtTx
				if json.Unmarshal(b, &probe) != nil || !reflect.DeepEqual(probe, orig) {
					c.Violate("C17", "proposal", "arbitrary-injected-tx-accepted", map[string]interface{}{"bytes": fmt.Sprintf("%.80q", b)})
				}
			}
			continue
		default: // block height field
			m.BlockHeight++
			name = "block-height"
		}
		if reflect.DeepEqual(m, orig) {
			continue
		}
		bz, _ := json.Marshal(m)
		st, err := p.process(c, req, bz)
		p.st.Count("c17.mutation.evals")
		p.st.Bucket("c17|mutation|%s|%s", name, st)
		p.panics(c, "mutation:"+name)
		if err == nil && st == abci.ResponseProcessProposal_ACCEPT && name != "block-height" {
			c.Violate("C17", "proposal", "mutated-proposal-accepted:"+name, map[string]interface{}{"height": req.Height})
		}
		if name == "block-height" && st == abci.ResponseProcessProposal_ACCEPT {
			p.st.Count("c17.block-height-field-not-checked")
		}
	}
	p.byzantineCommit(c, req, ec, orig)
	// the unchanged proposal must still be accepted after all that (same state, same answer)
	st, err := p.process(c, req, req.Txs[0])
	if err != nil || st != abci.ResponseProcessProposal_ACCEPT {
		c.Violate("C17", "proposal", "honest-proposal-rejected-on-resubmission", map[string]interface{}{"height": req.Height})
	}
	// ExtendVote of this node (no keyring configured: must degrade to an empty extension, not panic)
	if _, err := c.App.ExtendVote(nil, &abci.RequestExtendVote{Height: req.Height, Hash: req.Hash, Time: req.Time, Txs: req.Txs, ProposerAddress: req.ProposerAddress}); err != nil {
		p.st.Count("c17.extendvote-error")
	}
	p.st.Count("c17.extendvote.evals")
	p.panics(c, "extend-vote")
}

// byzantineCommit (C17, "bridge data reaches state only as signed"): a proposer hands the application a last commit
// in which a validator that did NOT commit (nil / absent vote, no extension signature) nevertheless carries a vote
// extension with bridge data. Two proposals are built from it - by the application's own PrepareProposal and by
// appending that validator's data to the honest lists by hand - and given to ProcessProposal. An accepted proposal
// may only list bridge data of validators whose vote in the injected commit has the commit flag.
func (p *ProposalLab) byzantineCommit(c *Chain, req *abci.RequestProcessProposal, ec abci.ExtendedCommitInfo, orig app.VoteExtTx) {
	if len(ec.Votes) < 2 {
		return
	}
	// the victim: a vote that is already nil/absent, else the smallest validator is turned into a nil vote
	// (the others still hold more than two thirds only if it is small enough)
	var total, minPow int64
	idx := -1
	for i, v := range ec.Votes {
		total += v.Validator.Power
		if v.BlockIdFlag != cmtproto.BlockIDFlagCommit {
			idx = i
		}
	}
	if idx < 0 {
		for i, v := range ec.Votes {
			if idx < 0 || v.Validator.Power < minPow {
				idx, minPow = i, v.Validator.Power
			}
		}
		var rest int64
		for i, v := range ec.Votes {
			if i != idx && v.BlockIdFlag == cmtproto.BlockIDFlagCommit {
				rest += v.Validator.Power
			}
		}
		if rest*3 <= total*2 {
			return
		}
	}
	var keys *ValKeys
	for _, k := range c.W.Vals {
		if bytes.Equal(k.ConsAdr, ec.Votes[idx].Validator.Address) {
			keys = k
		}
	}
	if keys == nil {
		return
	}
	// what the victim "sent": the extension an honest node would sign now, or crafted data of every kind
	ctx := c.CommittedCtx()
	ext := app.BridgeVoteExtension{}
	if honest, ok := c.PendingHonest[string(keys.ConsAdr)]; ok && len(honest) > 0 && p.r.Chance(0.5) {
		_ = json.Unmarshal(honest, &ext)
	}
	a := sha256sum([]byte("TellorLayer: Initial bridge signature A"))
	b := sha256sum([]byte("TellorLayer: Initial bridge signature B"))
	if len(ext.InitialSignature.SignatureA) == 0 {
		ext.InitialSignature = app.InitialSignature{SignatureA: keys.BridgeSign(a), SignatureB: keys.BridgeSign(b)}
	}
	if len(ext.ValsetSignature.Signature) == 0 {
		if idxc, err := c.App.BridgeKeeper.LatestCheckpointIdx.Get(ctx); err == nil {
			if ts, err := c.App.BridgeKeeper.ValidatorCheckpointIdxMap.Get(ctx, idxc.Index); err == nil {
				ext.ValsetSignature = app.BridgeValsetSignature{Signature: randBytes(p.r, 64), Timestamp: ts.Timestamp}
			}
		}
	}
	if len(ext.OracleAttestations) == 0 {
		ext.OracleAttestations = []app.OracleAttestation{{Snapshot: randBytes(p.r, 32), Attestation: randBytes(p.r, 64)}}
	}
	extBz, _ := json.Marshal(ext)
	ec2 := abci.ExtendedCommitInfo{Round: ec.Round, Votes: append([]abci.ExtendedVoteInfo{}, ec.Votes...)}
	flag := []cmtproto.BlockIDFlag{cmtproto.BlockIDFlagNil, cmtproto.BlockIDFlagAbsent}[p.r.Pick(2)]
	ec2.Votes[idx] = abci.ExtendedVoteInfo{Validator: ec.Votes[idx].Validator, BlockIdFlag: flag, VoteExtension: extBz}
	victim := keys.ValAdr.String()
	judge := func(how string, first []byte, st abci.ResponseProcessProposal_ProposalStatus, err error) {
		p.st.Count("c17.byzantine-commit.evals")
		p.st.Bucket("c17|byzantine-commit|%s|flag=%s|%s", how, flag, st)
		p.panics(c, "byzantine-commit:"+how)
		if err != nil || st != abci.ResponseProcessProposal_ACCEPT {
			return
		}
		var got app.VoteExtTx
		if json.Unmarshal(first, &got) != nil {
			return
		}
		for _, l := range [][]string{got.OpAndEVMAddrs.OperatorAddresses, got.ValsetSigs.OperatorAddresses, got.OracleAttestations.OperatorAddresses} {
			for _, op := range l {
				if op == victim {
					c.Violate("C17", "proposal", "accepted-proposal-carries-bridge-data-of-a-vote-without-commit-flag:"+how, map[string]interface{}{"height": req.Height, "validator": victim, "flag": flag.String()})
					return
				}
			}
		}
	}
	// (a) the application's own PrepareProposal on the crafted commit
	prep, err := c.App.PrepareProposal(&abci.RequestPrepareProposal{MaxTxBytes: 20_000_000, Txs: req.Txs[1:], LocalLastCommit: ec2, Height: req.Height, Time: req.Time,
		ProposerAddress: req.ProposerAddress, NextValidatorsHash: req.NextValidatorsHash})
	p.panics(c, "byzantine-commit:prepare")
	if err == nil && len(prep.Txs) > 0 {
		r2 := *req
		r2.Txs = prep.Txs
		r2.ProposedLastCommit = toCommitInfo(ec2)
		res, err := c.App.ProcessProposal(&r2)
		st := abci.ResponseProcessProposal_UNKNOWN
		if err == nil {
			st = res.Status
		}
		judge("prepared-by-app", prep.Txs[0], st, err)
	}
	// (b) the honest lists plus the victim's data, over the crafted commit
	m := clone(orig)
	m.ExtendedCommitInfo = ec2
	switch p.r.Pick(3) {
	case 0:
		m.ValsetSigs.OperatorAddresses = append(m.ValsetSigs.OperatorAddresses, victim)
		m.ValsetSigs.Timestamps = append(m.ValsetSigs.Timestamps, int64(ext.ValsetSignature.Timestamp))
		m.ValsetSigs.Signatures = append(m.ValsetSigs.Signatures, hex.EncodeToString(ext.ValsetSignature.Signature))
	case 1:
		m.OracleAttestations.OperatorAddresses = append(m.OracleAttestations.OperatorAddresses, victim)
		m.OracleAttestations.Attestations = append(m.OracleAttestations.Attestations, ext.OracleAttestations[0].Attestation)
		m.OracleAttestations.Snapshots = append(m.OracleAttestations.Snapshots, ext.OracleAttestations[0].Snapshot)
	default:
		if evm, ok := ownEVMAddressFromSignatures(ext.InitialSignature.SignatureA, ext.InitialSignature.SignatureB); ok {
			m.OpAndEVMAddrs.OperatorAddresses = append(m.OpAndEVMAddrs.OperatorAddresses, victim)
			m.OpAndEVMAddrs.EVMAddresses = append(m.OpAndEVMAddrs.EVMAddresses, evm.Hex())
		}
	}
	bz, _ := json.Marshal(m)
	r3 := *req
	r3.Txs = append([][]byte{bz}, req.Txs[1:]...)
	r3.ProposedLastCommit = toCommitInfo(ec2)
	res, err := c.App.ProcessProposal(&r3)
	st := abci.ResponseProcessProposal_UNKNOWN
	if err == nil {
		st = res.Status
	}
	judge("lists-extended-by-hand", bz, st, err)
}

// finalizeUndecodable feeds FinalizeBlock a block whose injected first transaction is not decodable (a block an
// honest validator would have rejected in ProcessProposal). The statement demands that arbitrary bytes in the
// injected transaction never cause a panic in the handlers; an error return is fine. Ends the history.
func finalizeUndecodable(c *Chain) {
	h := c.Height + 1
	t := c.Time.Add(1000000000)
	var panicked interface{}
	var err error
	func() {
		defer func() { panicked = recover() }()
		_, err = c.App.FinalizeBlock(&abci.RequestFinalizeBlock{Txs: [][]byte{[]byte("{not json")}, Height: h, Time: t, Hash: []byte("h"),
			DecidedLastCommit: toCommitInfo(c.lastExt), ProposerAddress: c.Valset(h)[0].Keys.ConsAdr, NextValidatorsHash: []byte("n")})
	}()
	c.Dead = true
	if panicked != nil {
		c.Violate("C17", "proposal", "preblocker-panics-on-undecodable-injected-tx", map[string]interface{}{"panic": fmt.Sprint(panicked), "err": fmt.Sprint(err)})
	}
}
