package sim

import (
	"fmt"
	sdk "github.com/cosmos/cosmos-sdk/types"
	"regexp"
	"sort"
	"strings"
	"time"
)

// CaseSpec identifies one generated history; everything about it is a function of these fields.
type CaseSpec struct {
	Prop    string `json:"prop"`
	Tier    string `json:"tier"`
	Seed    int64  `json:"seed"`
	Case    int    `json:"case"`
	Blocks  int    `json:"blocks"`
	Profile string `json:"profile"`
}

// CaseResult is what one history produced; the check driver merges these.
type CaseResult struct {
	Spec         CaseSpec       `json:"spec"`
	BlocksRun    int            `json:"blocks_run"`
	TxAccepted   int            `json:"tx_accepted"`
	TxRejected   int            `json:"tx_rejected"`
	Dead         bool           `json:"dead"`
	Death        string         `json:"death,omitempty"`
	Violations   []Violation    `json:"violations"`
	Buckets      []string       `json:"buckets"`  // distinct feature buckets at which a deciding oracle evaluated
	Counters     map[string]int `json:"counters"` // monitor evaluations etc.
	MsgOk        map[string]int `json:"msg_ok"`
	MsgRej       map[string]int `json:"msg_rej"`
	Samples      []string       `json:"samples"`
	WallS        float64        `json:"wall_s"`
	AppHash      string         `json:"app_hash"`
	Inconclusive string         `json:"inconclusive,omitempty"`
}

// Stats collects buckets/counters for a case; monitors write into it.
type Stats struct {
	buckets  map[string]struct{}
	Counters map[string]int
}

func NewStats() *Stats { return &Stats{buckets: map[string]struct{}{}, Counters: map[string]int{}} }
func (s *Stats) Bucket(format string, a ...interface{}) {
	s.buckets[fmt.Sprintf(format, a...)] = struct{}{}
}
func (s *Stats) Count(k string)      { s.Counters[k]++ }
func (s *Stats) Add(k string, n int) { s.Counters[k] += n }
func (s *Stats) BucketList() []string {
	out := make([]string, 0, len(s.buckets))
	for k := range s.buckets {
		out = append(out, k)
	}
	sort.Strings(out)
	return out
}

// PropDef wires a property to its workload profile and deciding monitors.
type PropDef struct {
	ID       string
	Profile  func(tier string, r *Rng) Profile
	World    func(cfg *WorldCfg, r *Rng)
	Monitors func(st *Stats) []Monitor
	Cases    map[string]int // tier -> number of histories
	Blocks   map[string]int // tier -> blocks per history
	// Setup is called once the chain exists (attach extra observers); Opts chooses node-local options
	Setup func(c *Chain, st *Stats, r *Rng)
	Opts  func() AppOpts
	// Finish runs after the generated blocks (e.g. the settlement phase of the dispute properties)
	Finish func(c *Chain, g *Gen, mons []Monitor)
	// DeathIsViolation: a failing block is a violation of this property (C02); otherwise it ends the case quietly.
	DeathIsViolation bool
	// DeathModules: a block failing in an automatic phase of one of these modules is a violation of this property too
	// (the property's lifecycle step did not happen); other deaths end the case and are only counted.
	DeathModules []string
}

var Props = map[string]*PropDef{}

func Register(p *PropDef) { Props[p.ID] = p }

var (
	reHex    = regexp.MustCompile(`[0-9a-fA-F]{8,}`)
	reBech   = regexp.MustCompile(`tellor(valoper|valcons)?1[0-9a-z]{20,}`)
	reNum    = regexp.MustCompile(`[0-9]+`)
	reGoAddr = regexp.MustCompile(`0x[0-9a-f]+`)
)

// NormalizeErr strips run-specific values from an error text so it can serve as a signature.
func NormalizeErr(s string) string {
	if i := strings.Index(s, "\n"); i >= 0 {
		s = s[:i]
	}
	s = reBech.ReplaceAllString(s, "<addr>")
	s = reGoAddr.ReplaceAllString(s, "<x>")
	s = reHex.ReplaceAllStringFunc(s, func(m string) string {
		for _, ch := range m {
			if ch < '0' || ch > '9' {
				return "<hex>"
			}
		}
		return "N"
	})
	s = reNum.ReplaceAllString(s, "N")
	if len(s) > 160 {
		s = s[:160]
	}
	return s
}

var reFrame = regexp.MustCompile(`github.com/tellor-io/layer/([^\s(]+)`)

// PanicSite extracts the first frame inside tellor-io/layer from a stack.
func PanicSite(stack string) string {
	for _, line := range strings.Split(stack, "\n") {
		if m := reFrame.FindStringSubmatch(line); m != nil && !strings.Contains(line, ".go:") {
			if strings.Contains(m[1], "app.(*App).") || strings.Contains(m[1], "Hooks") {
				continue
			}
			return m[1]
		}
	}
	return "unknown"
}

// RunCase executes one history.
func RunCase(spec CaseSpec) (res CaseResult) {
	t0 := time.Now()
	res.Spec = spec
	def := Props[spec.Prop]
	if def == nil {
		res.Inconclusive = "unknown property " + spec.Prop
		return
	}
	caseSeed := spec.Seed*1_000_003 + int64(spec.Case)
	r := NewRng(caseSeed, "case:"+spec.Prop)
	cfg := DefaultWorldCfg(caseSeed)
	if def.World != nil {
		def.World(&cfg, r)
	}
	w := NewWorld(cfg)
	st := NewStats()
	prof := def.Profile(spec.Tier, r)
	res.Spec.Profile = prof.Name
	var mons []Monitor
	if def.Monitors != nil {
		mons = def.Monitors(st)
	}
	if DebugTracer != nil {
		mons = append(mons, DebugTracer)
	}
	opts := AppOpts{}
	if def.Opts != nil {
		opts = def.Opts()
	}
	c := NewChain(w, opts, mons...)
	defer c.Close()
	if def.Setup != nil {
		def.Setup(c, st, r)
	}
	g := NewGen(c, caseSeed, prof)
	c.Monitors = append(c.Monitors, g)
	if cfg.Keyless {
		g.QueueFragment("lastBridgeValidatorLeaves")
		st.Bucket("fragment|lastBridgeValidatorLeaves")
	}
	for _, f := range prof.Fragments {
		g.QueueFragment(f)
		st.Bucket("fragment|%s", f)
	}
	defer func() {
		if rec := recover(); rec != nil {
			res.Inconclusive = fmt.Sprintf("harness panic: %v", rec)
		}
		res.Violations = c.Violations
		if c.IterLeaks > 0 {
			st.Counters["harness.iterators-left-open-by-the-application-closed-at-commit"] += c.IterLeaks
		}
		res.Buckets = st.BucketList()
		res.Counters = st.Counters
		res.MsgOk, res.MsgRej = g.Ok, g.Rej
		res.Samples = g.Samples
		res.WallS = time.Since(t0).Seconds()
	}()
	for i := 0; i < spec.Blocks; i++ {
		plan := g.Plan()
		br := c.NextBlock(plan)
		if br.Err != nil {
			res.Dead = true
			sig := fmt.Sprintf("%s:%s", br.Phase, NormalizeErr(br.Err.Error()))
			if br.Panic != "" {
				sig = fmt.Sprintf("%s:panic:%s:%s", br.Phase, PanicSite(br.Panic), NormalizeErr(br.Err.Error()))
			}
			res.Death = sig
			if c.Flags["valset-empty"] {
				res.Death = "out-of-model:validator-set-empty:" + sig
				st.Count("out-of-model.validator-set-empty")
			} else if def.DeathIsViolation || deathIn(br.Phase, def.DeathModules) {
				c.Violations = append(c.Violations, Violation{Property: strings.TrimSuffix(strings.TrimSuffix(spec.Prop, "chain"), "lab"), Monitor: "blockfail", Sig: sig, Height: br.Height, Phase: br.Phase,
					Detail: map[string]interface{}{"err": firstLines(br.Err.Error(), 3), "panic": firstLines(br.Panic, 40)}})
			}
			st.Count("case-died")
			break
		}
		res.BlocksRun++
		// model boundary: a chain on which no validator is bonded any more has no consensus engine to drive it (every
		// validator was jailed, slashed to nothing or left); the history ends here and is not judged. (Until the repair of
		// F40 this state made the bridge EndBlocker fail, which is how the boundary used to be noticed.)
		if noBondedPower(c) {
			c.Flags["valset-empty"] = true
			res.Death = "out-of-model:validator-set-empty"
			st.Count("out-of-model.validator-set-empty")
			break
		}
		for _, tr := range br.Res.TxResults[minInt(1, len(br.Res.TxResults)):] {
			if tr.Code == 0 {
				res.TxAccepted++
			} else {
				res.TxRejected++
				st.Count("txfail:" + NormalizeErr(tr.Log))
			}
		}
		res.AppHash = fmt.Sprintf("%x", br.AppHash)
		for ; g.FastForward > 0 && !c.Dead; g.FastForward-- {
			if ff := c.NextBlock(BlockPlan{Gap: time.Second}); ff.Err != nil {
				res.Dead = true
				res.Death = "fast-forward:" + NormalizeErr(ff.Err.Error())
				if def.DeathIsViolation {
					c.Violations = append(c.Violations, Violation{Property: spec.Prop, Monitor: "blockfail", Sig: res.Death, Height: ff.Height, Phase: ff.Phase, Detail: map[string]interface{}{"err": firstLines(ff.Err.Error(), 3)}})
				}
			} else {
				st.Count("fast-forward-blocks")
			}
		}
		if c.Dead {
			break
		}
	}
	if def.Finish != nil && !c.Dead {
		def.Finish(c, g, mons)
	}
	return
}

func noBondedPower(c *Chain) bool {
	vals, err := c.App.StakingKeeper.GetAllValidators(c.CommittedCtx())
	if err != nil {
		return false
	}
	for _, v := range vals {
		if v.IsBonded() && v.GetConsensusPower(sdk.DefaultPowerReduction) > 0 {
			return false
		}
	}
	return true
}

func deathIn(phase string, modules []string) bool {
	for _, m := range modules {
		if phase == m || strings.HasSuffix(phase, "/"+m) {
			return true
		}
	}
	return false
}

func minInt(a, b int) int {
	if a < b {
		return a
	}
	return b
}

func firstLines(s string, n int) string {
	lines := strings.Split(s, "\n")
	if len(lines) > n {
		lines = lines[:n]
	}
	return strings.Join(lines, "\n")
}

// QueueFragment schedules a directed fragment (implemented in fragments.go).
func (g *Gen) QueueFragment(name string) {
	if f, ok := fragments[name]; ok {
		g.fragQueue = append(g.fragQueue, f(g)...)
	}
}

var fragments = map[string]func(g *Gen) []func() [][]byte{}
