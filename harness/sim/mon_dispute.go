package sim

import (
	"fmt"
	"math/big"
	"sort"
	"strings"
	"time"

	disputetypes "github.com/tellor-io/layer/x/dispute/types"
	oracletypes "github.com/tellor-io/layer/x/oracle/types"

	"cosmossdk.io/collections"
	"cosmossdk.io/math"

	sdk "github.com/cosmos/cosmos-sdk/types"
	stakingtypes "github.com/cosmos/cosmos-sdk/x/staking/types"
)

// DisputeMonitor keeps a reference state machine and a money ledger of every dispute and decides the
// dispute-related clauses of C11 (slashing at funding), C12 (lifecycle, votes, tally) and C13 (settlement).
// Which property's violations count is selected by Decide (the others are advisory).
type DisputeMonitor struct {
	firstSeen map[uint64]time.Time // block time at which a dispute id was first observed
	BaseMonitor
	st *Stats

	status   map[uint64]disputetypes.DisputeStatus
	disputes map[uint64]disputetypes.Dispute
	votes    map[uint64]disputetypes.Vote
	voted    map[uint64]map[string]bool
	// selVoted[id][reporter] = stake (as of the dispute's block) of that reporter's selectors, other than the reporter
	// itself, that have voted in this round, keyed by selector address
	selVoted map[uint64]map[string]map[string]math.Int
	executed map[uint64]int
	funded   map[string]int // hash -> number of funding completions seen

	// ledger per dispute hash
	in, out      map[string]math.Int
	failedPaid   map[string]bool
	refundClaims map[string]bool     // id|payer
	rewardClaims map[string]bool     // id|voter
	rewardPaid   map[string]math.Int // dispute hash -> what voters have taken out so far
	blockInfo    map[string]string   // dispute hash -> the totals recorded at the dispute's block, as first seen
	divisions    int64               // truncating divisions performed by refunds / rewards
	bal          math.Int            // dispute module balance at last observation
	stake        map[string]math.Int
	supplyPrev   math.Int
	s1Exec       map[uint64]bool
	group        map[string]string // union-find over dispute hashes executed in the same block
	fromBondHash map[string]bool   // dispute hashes that received a fee payment from stake
	teamless     bool
}

func NewDisputeMonitor(st *Stats) *DisputeMonitor {
	return &DisputeMonitor{st: st, status: map[uint64]disputetypes.DisputeStatus{}, disputes: map[uint64]disputetypes.Dispute{}, votes: map[uint64]disputetypes.Vote{},
		voted: map[uint64]map[string]bool{}, selVoted: map[uint64]map[string]map[string]math.Int{}, executed: map[uint64]int{}, funded: map[string]int{}, in: map[string]math.Int{}, out: map[string]math.Int{},
		failedPaid: map[string]bool{}, refundClaims: map[string]bool{}, rewardClaims: map[string]bool{}, bal: math.ZeroInt(), group: map[string]string{}, fromBondHash: map[string]bool{}}
}
func (m *DisputeMonitor) Name() string { return "dispute" }

func (m *DisputeMonitor) find(h string) string {
	for {
		p, ok := m.group[h]
		if !ok || p == h {
			return h
		}
		h = p
	}
}

func (m *DisputeMonitor) union(a, b string) {
	ra, rb := m.find(a), m.find(b)
	if ra != rb {
		m.group[ra] = rb
	}
}

func addTo(mp map[string]math.Int, k string, v math.Int) {
	if old, ok := mp[k]; ok {
		mp[k] = old.Add(v)
	} else {
		mp[k] = v
	}
}

// stakeOf returns, per delegator, all tokens in delegations and unbonding entries.
func stakeOf(c *Chain, ctx sdk.Context) map[string]math.Int {
	out := map[string]math.Int{}
	vals := map[string]stakingtypes.Validator{}
	all, _ := c.App.StakingKeeper.GetAllValidators(ctx)
	for _, v := range all {
		vals[v.OperatorAddress] = v
	}
	_ = c.App.StakingKeeper.IterateAllDelegations(ctx, func(d stakingtypes.Delegation) bool {
		if v, ok := vals[d.ValidatorAddress]; ok {
			addTo(out, d.DelegatorAddress, v.TokensFromShares(d.Shares).TruncateInt())
		}
		return false
	})
	_ = c.App.StakingKeeper.IterateUnbondingDelegations(ctx, func(_ int64, u stakingtypes.UnbondingDelegation) bool {
		for _, e := range u.Entries {
			addTo(out, u.DelegatorAddress, e.Balance)
		}
		return false
	})
	return out
}

func (m *DisputeMonitor) snapshot(c *Chain, ctx sdk.Context) (map[uint64]disputetypes.Dispute, map[uint64]disputetypes.Vote) {
	ds := map[uint64]disputetypes.Dispute{}
	vs := map[uint64]disputetypes.Vote{}
	_ = c.App.DisputeKeeper.Disputes.Walk(ctx, nil, func(id uint64, d disputetypes.Dispute) (bool, error) {
		ds[id] = d
		return false, nil
	})
	_ = c.App.DisputeKeeper.Votes.Walk(ctx, nil, func(id uint64, v disputetypes.Vote) (bool, error) {
		vs[id] = v
		return false, nil
	})
	return ds, vs
}

var allowedTransitions = map[[2]disputetypes.DisputeStatus]bool{
	{disputetypes.Prevote, disputetypes.Voting}:      true,
	{disputetypes.Prevote, disputetypes.Failed}:      true,
	{disputetypes.Voting, disputetypes.Resolved}:     true,
	{disputetypes.Voting, disputetypes.Unresolved}:   true,
	{disputetypes.Unresolved, disputetypes.Resolved}: true,
}

// observe compares the dispute collections with the shadow state and returns what changed.
func (m *DisputeMonitor) observe(c *Chain, ctx sdk.Context, where string) (created, fundedNow, tallied []uint64) {
	ds, vs := m.snapshot(c, ctx)
	// "reporting stake and tips taken as of the dispute's block": the totals recorded for a dispute never change
	if m.blockInfo == nil {
		m.blockInfo = map[string]string{}
	}
	_ = c.App.DisputeKeeper.BlockInfo.Walk(ctx, nil, func(h []byte, bi disputetypes.BlockInfo) (bool, error) {
		cur := bi.TotalReporterPower.String() + "/" + bi.TotalUserTips.String()
		if old, ok := m.blockInfo[string(h)]; ok && old != cur {
			c.Violate("C12", "dispute", "totals-recorded-at-the-disputes-block-changed-later", map[string]interface{}{"hash": fmt.Sprintf("%x", h)[:8], "was": old, "now": cur, "where": where})
		}
		m.blockInfo[string(h)] = cur
		return false, nil
	})
	ids := make([]uint64, 0, len(ds))
	for id := range ds {
		ids = append(ids, id)
	}
	sort.Slice(ids, func(i, j int) bool { return ids[i] < ids[j] })
	if where == "beginblock" {
		// "otherwise the majority of votes cast after the voting period": once a block's time lies after the end of a
		// round's voting period, that round has been tallied by the end of the block's BeginBlock - every such round,
		// whatever other disputes are open
		for _, id := range ids {
			if v, ok := vs[id]; ok && ds[id].DisputeStatus == disputetypes.Voting {
				m.st.Count("c12.vote-end.evals")
				if ctx.BlockTime().After(v.VoteEnd) && v.VoteResult == disputetypes.VoteResult_NO_TALLY {
					m.st.Bucket("c12|voting-period-over-but-not-tallied")
					c.Violate("C12", "dispute", "voting-period-over-but-round-not-tallied", map[string]interface{}{"id": id, "vote_end": v.VoteEnd.String(), "now": ctx.BlockTime().String(), "open_disputes": len(ids)})
				}
			}
		}
		// the automatic expiry: once a block's time lies more than one day after the proposal an under-funded dispute has
		// failed by the end of that block's BeginBlock, however many partial payments it received
		for _, id := range ids {
			if t0, ok := m.firstSeen[id]; ok && ds[id].DisputeStatus == disputetypes.Prevote {
				m.st.Count("c11.expiry.evals")
				if ctx.BlockTime().After(t0.Add(24 * time.Hour)) {
					m.st.Bucket("c11|underfunded-after-one-day")
					c.Violate("C11", "dispute", "underfunded-dispute-still-open-more-than-one-day-after-the-proposal", map[string]interface{}{"id": id, "proposed": t0.String(), "now": ctx.BlockTime().String(), "paid": ds[id].FeeTotal.String(), "fee": ds[id].SlashAmount.String()})
				}
			}
		}
	}
	for _, id := range ids {
		d := ds[id]
		old, known := m.status[id]
		if !known {
			created = append(created, id)
			if m.firstSeen == nil {
				m.firstSeen = map[uint64]time.Time{}
			}
			m.firstSeen[id] = ctx.BlockTime()
			m.st.Bucket("c12|created|status=%s|round=%d", d.DisputeStatus, minInt(int(d.DisputeRound), 4))
			if d.DisputeStatus != disputetypes.Prevote && d.DisputeStatus != disputetypes.Voting {
				c.Violate("C12", "dispute", "dispute-created-in-status:"+d.DisputeStatus.String(), map[string]interface{}{"id": id})
			}
			if d.DisputeStatus == disputetypes.Voting && d.DisputeRound == 1 {
				fundedNow = append(fundedNow, id)
			}
			// a new round: fee doubles (capped by the slash amount)
			if d.DisputeRound > 1 && len(d.PrevDisputeIds) >= 2 {
				prev, ok := m.disputes[d.PrevDisputeIds[len(d.PrevDisputeIds)-2]]
				if ok {
					m.st.Count("c12.round-fee.evals")
					fee := d.FeeTotal.Sub(prev.FeeTotal)
					if prev.DisputeStatus != disputetypes.Unresolved {
						c.Violate("C12", "dispute", "new-round-from-status:"+prev.DisputeStatus.String(), map[string]interface{}{"id": id, "prev": prev.DisputeId})
					}
					if d.DisputeRound > 2 && len(d.PrevDisputeIds) >= 3 {
						if pp, ok := m.disputes[d.PrevDisputeIds[len(d.PrevDisputeIds)-3]]; ok {
							prevFee := prev.FeeTotal.Sub(pp.FeeTotal)
							want := prevFee.MulRaw(2)
							if want.GT(d.SlashAmount) {
								want = d.SlashAmount
							}
							if !fee.Equal(want) {
								c.Violate("C12", "dispute", "round-fee-not-doubled", map[string]interface{}{"id": id, "round": d.DisputeRound, "fee": fee.String(), "prev_fee": prevFee.String(), "slash": d.SlashAmount.String()})
							}
						}
					}
				}
			}
		} else if old != d.DisputeStatus {
			m.st.Count("c12.transition.evals")
			m.st.Bucket("c12|transition|%s->%s|%s", old, d.DisputeStatus, strings.SplitN(where, ":", 2)[0])
			if !allowedTransitions[[2]disputetypes.DisputeStatus{old, d.DisputeStatus}] {
				c.Violate("C12", "dispute", fmt.Sprintf("illegal-transition:%s->%s", old, d.DisputeStatus), map[string]interface{}{"id": id, "where": where})
			}
			// a round that was superseded by a new round has made its transition (unresolved -> new round): it moves no further
			for _, later := range ds {
				if later.DisputeId > id && string(later.HashId) == string(d.HashId) {
					c.Violate("C12", "dispute", fmt.Sprintf("superseded-round-changed-status:%s->%s", old, d.DisputeStatus), map[string]interface{}{"id": id, "later_round": later.DisputeId, "where": where})
					break
				}
			}
			if old == disputetypes.Prevote && d.DisputeStatus == disputetypes.Voting {
				fundedNow = append(fundedNow, id)
				// "a dispute whose fee is not completed within one day expires without any slashing"
				if t0, ok := m.firstSeen[id]; ok {
					m.st.Bucket("c11|fee-completed|after-more-than-12h=%v", ctx.BlockTime().Sub(t0) > 12*time.Hour)
					if ctx.BlockTime().After(t0.Add(24 * time.Hour)) {
						c.Violate("C11", "dispute", "fee-completed-and-reporter-slashed-more-than-one-day-after-the-proposal", map[string]interface{}{"id": id, "proposed": t0.String(), "now": ctx.BlockTime().String()})
					}
				}
			}
			if d.DisputeStatus == disputetypes.Failed {
				// expired unfunded: must never have touched stake
				if has, _ := c.App.ReporterKeeper.DisputedDelegationAmounts.Has(ctx, d.HashId); has {
					c.Violate("C11", "dispute", "failed-dispute-has-escrowed-stake", map[string]interface{}{"id": id})
				}
				m.st.Count("c11.expired-unfunded.evals")
			}
		}
		if ov, ok := m.votes[id]; ok {
			if nv, ok2 := vs[id]; ok2 && ov.VoteResult == disputetypes.VoteResult_NO_TALLY && nv.VoteResult != disputetypes.VoteResult_NO_TALLY {
				tallied = append(tallied, id)
			}
			if nv, ok2 := vs[id]; ok2 && ov.VoteResult != disputetypes.VoteResult_NO_TALLY && nv.VoteResult != ov.VoteResult {
				c.Violate("C12", "dispute", "vote-result-changed-after-tally", map[string]interface{}{"id": id, "from": ov.VoteResult.String(), "to": nv.VoteResult.String()})
			}
		} else if nv, ok2 := vs[id]; ok2 && nv.VoteResult != disputetypes.VoteResult_NO_TALLY {
			tallied = append(tallied, id)
		}
		m.status[id] = d.DisputeStatus
	}
	m.disputes, m.votes = ds, vs
	return
}

func (m *DisputeMonitor) BeforeBlock(c *Chain, ctx sdk.Context) {
	m.bal = modBal(c, ctx, disputetypes.ModuleName)
	m.stake = stakeOf(c, ctx)
	m.supplyPrev = supply(c, ctx)
}

func (m *DisputeMonitor) BeginBlockEntry(c *Chain, ctx sdk.Context) {
	m.s1Exec = map[uint64]bool{}
	for id, v := range m.votes {
		m.s1Exec[id] = v.Executed
	}
}

// ---- reference tally (C12) ----

type refTally struct {
	result   string // support / against / invalid
	quorum   bool
	near     bool // quorum ratio within rounding distance of 51%, or the two leading choices closer than the implementation's precision
	exactTie bool // the two leading choices tie exactly, group by group
}

func (m *DisputeMonitor) referenceTally(c *Chain, ctx sdk.Context, d disputetypes.Dispute, info disputetypes.BlockInfo, haveInfo bool) (refTally, bool) {
	counts, err := c.App.DisputeKeeper.VoteCountsByGroup.Get(ctx, d.DisputeId)
	if err != nil {
		counts = disputetypes.StakeholderVoteCounts{}
	}
	if !haveInfo {
		return refTally{}, false
	}
	type grp struct {
		s, a, i uint64
		total   *big.Int
	}
	team := grp{counts.Team.Support, counts.Team.Against, counts.Team.Invalid, big.NewInt(1)}
	if m.teamless {
		team = grp{0, 0, 0, big.NewInt(1)}
	}
	groups := []grp{
		team,
		{counts.Users.Support, counts.Users.Against, counts.Users.Invalid, info.TotalUserTips.BigInt()},
		{counts.Reporters.Support, counts.Reporters.Against, counts.Reporters.Invalid, info.TotalReporterPower.BigInt()},
		{counts.Tokenholders.Support, counts.Tokenholders.Against, counts.Tokenholders.Invalid, supply(c, ctx).BigInt()},
	}
	sup, ag, inv := new(big.Rat), new(big.Rat), new(big.Rat)
	ratio := new(big.Rat) // Σ 25 * cast/total
	for _, g := range groups {
		cast := new(big.Int).Add(new(big.Int).SetUint64(g.s), new(big.Int).Add(new(big.Int).SetUint64(g.a), new(big.Int).SetUint64(g.i)))
		if cast.Sign() == 0 {
			continue
		}
		sup.Add(sup, new(big.Rat).SetFrac(new(big.Int).SetUint64(g.s), cast))
		ag.Add(ag, new(big.Rat).SetFrac(new(big.Int).SetUint64(g.a), cast))
		inv.Add(inv, new(big.Rat).SetFrac(new(big.Int).SetUint64(g.i), cast))
		if g.total.Sign() > 0 {
			ratio.Add(ratio, new(big.Rat).Mul(big.NewRat(25, 1), new(big.Rat).SetFrac(cast, g.total)))
		}
	}
	rt := refTally{quorum: ratio.Cmp(big.NewRat(51, 1)) >= 0}
	lo, hi := big.NewRat(50999, 1000), big.NewRat(51001, 1000)
	rt.near = ratio.Cmp(lo) >= 0 && ratio.Cmp(hi) <= 0
	// the implementation works with 6-decimal fractions: sums closer than 5e-6 are a tie for it
	vals := []*big.Rat{sup, ag, inv}
	sort.Slice(vals, func(i, j int) bool { return vals[i].Cmp(vals[j]) > 0 })
	if new(big.Rat).Sub(vals[0], vals[1]).Cmp(big.NewRat(5, 1_000_000)) < 0 {
		rt.near = true
		// ... except for a tie that is exact group by group (each group gives the two leading choices the same
		// number of votes): any arithmetic that treats the choices alike computes equal sums, so the outcome
		// ("no majority": invalid) can be compared
		symmetric := func(x, y func(g grp) uint64) bool {
			for _, g := range groups {
				if x(g) != y(g) {
					return false
				}
			}
			return true
		}
		S, A, I := func(g grp) uint64 { return g.s }, func(g grp) uint64 { return g.a }, func(g grp) uint64 { return g.i }
		switch {
		case sup.Cmp(ag) == 0 && sup.Cmp(inv) > 0 && symmetric(S, A),
			sup.Cmp(inv) == 0 && sup.Cmp(ag) > 0 && symmetric(S, I),
			ag.Cmp(inv) == 0 && ag.Cmp(sup) > 0 && symmetric(A, I):
			rt.near = ratio.Cmp(lo) >= 0 && ratio.Cmp(hi) <= 0
			rt.exactTie = true
		}
	}
	switch {
	case sup.Cmp(ag) > 0 && sup.Cmp(inv) > 0:
		rt.result = "support"
	case ag.Cmp(sup) > 0 && ag.Cmp(inv) > 0:
		rt.result = "against"
	default:
		rt.result = "invalid"
	}
	return rt, true
}

func resultClass(r disputetypes.VoteResult) (string, bool) {
	switch r {
	case disputetypes.VoteResult_SUPPORT:
		return "support", true
	case disputetypes.VoteResult_AGAINST:
		return "against", true
	case disputetypes.VoteResult_INVALID:
		return "invalid", true
	case disputetypes.VoteResult_NO_QUORUM_MAJORITY_SUPPORT:
		return "support", false
	case disputetypes.VoteResult_NO_QUORUM_MAJORITY_AGAINST:
		return "against", false
	case disputetypes.VoteResult_NO_QUORUM_MAJORITY_INVALID:
		return "invalid", false
	}
	return "none", false
}

func (m *DisputeMonitor) checkTally(c *Chain, ctx sdk.Context, id uint64, info disputetypes.BlockInfo, haveInfo bool, where string) {
	d := m.disputes[id]
	v := m.votes[id]
	m.st.Count("c12.tally.evals")
	ref, ok := m.referenceTally(c, ctx, d, info, haveInfo)
	res, quorum := resultClass(v.VoteResult)
	if !ok {
		return
	}
	counts, _ := c.App.DisputeKeeper.VoteCountsByGroup.Get(ctx, id)
	part := 0
	for _, g := range []disputetypes.VoteCounts{counts.Team, counts.Users, counts.Reporters, counts.Tokenholders} {
		if g.Support+g.Against+g.Invalid > 0 {
			part++
		}
	}
	m.st.Bucket("c12|tally|groups=%d|quorum=%v|result=%s|round=%d|%s", part, quorum, res, minInt(int(d.DisputeRound), 3), strings.SplitN(where, ":", 2)[0])
	if ref.near {
		m.st.Count("c12.tally.near-quorum-boundary-skipped")
		return
	}
	var voters []string
	teamA, _ := c.App.DisputeKeeper.GetTeamAddress(ctx)
	_ = c.App.DisputeKeeper.Voter.Walk(ctx, collections.NewPrefixedPairRange[uint64, []byte](id), func(k collections.Pair[uint64, []byte], vv disputetypes.Voter) (bool, error) {
		voters = append(voters, fmt.Sprintf("%s vote=%d power=%s rep=%s th=%s team=%v", sdk.AccAddress(k.K2()).String()[6:12], vv.Vote, vv.VoterPower, vv.ReporterPower, vv.TokenholderPower, string(k.K2()) == string(teamA)))
		return false, nil
	})
	detail := map[string]interface{}{"id": id, "voters": voters, "vote_end": v.VoteEnd.String(), "now": ctx.BlockTime().String(), "dispute_end": d.DisputeEndTime.String(), "recorded": v.VoteResult.String(), "reference_result": ref.result, "reference_quorum": ref.quorum,
		"counts": fmt.Sprintf("%+v", counts), "total_tips": info.TotalUserTips.String(), "total_reporter_power": info.TotalReporterPower.String()}
	if ref.quorum != quorum {
		c.Violate("C12", "dispute", fmt.Sprintf("tally-quorum-differs:recorded=%v:reference=%v", quorum, ref.quorum), detail)
		return
	}
	if ref.result != res && counts.Team.Support+counts.Team.Against+counts.Team.Invalid > 0 {
		// the team address can be replaced (MsgUpdateTeam) between the team's vote and the tally; the implementation
		// then counts no team vote. The statement does not say which is right, so a result that matches the
		// formula without the team's vote is not flagged.
		teamAddr, _ := c.App.DisputeKeeper.GetTeamAddress(ctx)
		if has, _ := c.App.DisputeKeeper.Voter.Has(ctx, collections.Join(id, teamAddr.Bytes())); !has {
			m.teamless = true
			ref2, ok2 := m.referenceTally(c, ctx, d, info, haveInfo)
			m.teamless = false
			if ok2 && ref2.result == res && ref2.quorum == quorum {
				m.st.Count("c12.tally.team-address-changed-since-vote")
				return
			}
		}
	}
	if ref.result != res {
		// discriminating fact: did team+users+reporters alone reach quorum while token holders had voted?
		// (the implementation then decides without the token holders' votes)
		class := "other"
		thCast := counts.Tokenholders.Support + counts.Tokenholders.Against + counts.Tokenholders.Invalid
		if quorum && thCast > 0 && m.firstStageQuorum(counts, info) {
			class = "tokenholders-ignored-when-other-groups-reach-quorum"
		}
		c.Violate("C12", "dispute", fmt.Sprintf("tally-result-differs:%s", class), detail)
	}
}

// ---- per-tx observation ----

func (m *DisputeMonitor) AfterTx(c *Chain, ctx sdk.Context, tx sdk.Tx, ok bool) {
	if !ok {
		return
	}
	prevDisputes, prevVotes := m.disputes, m.votes
	name, _ := layerMsg(tx)
	// block infos before they are removed by an execution in this tx (not possible in a tx, but keep it uniform)
	created, fundedNow, tallied := m.observe(c, ctx, "tx:"+name)
	bal := modBal(c, ctx, disputetypes.ModuleName)
	dBal := bal.Sub(m.bal)
	stake := stakeOf(c, ctx)
	for _, msg := range tx.GetMsgs() {
		switch x := msg.(type) {
		case *disputetypes.MsgVote:
			m.onVote(c, ctx, x, prevDisputes, prevVotes)
		case *disputetypes.MsgProposeDispute:
			var id uint64
			if len(created) > 0 {
				id = created[len(created)-1]
			}
			if d, ok := m.disputes[id]; ok {
				addTo(m.in, string(d.HashId), dBal)
				m.st.Count("c13.pay-in.evals")
				if x.PayFromBond {
					m.fromBondHash[string(d.HashId)] = true
				}
				m.checkAcceptedEvidence(c, ctx, d)
				// what enters escrow is what is recorded: the fee paid so far, plus the stake once the dispute is funded
				// (less is the known collection rounding; more is money nobody can ever claim)
				rec := d.FeeTotal
				if has, _ := c.App.ReporterKeeper.DisputedDelegationAmounts.Has(ctx, d.HashId); has && d.DisputeRound == 1 {
					rec = rec.Add(d.SlashAmount)
				}
				if d.DisputeRound == 1 {
					m.st.Bucket("c13|pay-in|offer-vs-fee=%d", x.Fee.Amount.BigInt().Cmp(d.SlashAmount.BigInt()))
					if dBal.GT(rec) {
						c.Violate("C13", "dispute", "more-taken-into-escrow-than-recorded", map[string]interface{}{"id": id, "entered_escrow": dBal.String(), "recorded_fee_plus_stake": rec.String(), "offered": x.Fee.Amount.String()})
					}
				}
			}
		case *disputetypes.MsgAddFeeToDispute:
			if d, ok := m.disputes[x.DisputeId]; ok {
				addTo(m.in, string(d.HashId), dBal)
				m.st.Count("c13.pay-in.evals")
				if x.PayFromBond {
					m.fromBondHash[string(d.HashId)] = true
				}
			}
		case *disputetypes.MsgWithdrawFeeRefund:
			if d, ok := m.disputes[x.Id]; ok {
				key := fmt.Sprintf("%d|%s", x.Id, x.PayerAddress)
				m.st.Count("c13.refund-claim.evals")
				m.st.Bucket("c13|refund|status=%s|result=%s|round=%d", d.DisputeStatus, m.votes[x.Id].VoteResult, minInt(int(d.DisputeRound), 3))
				if m.refundClaims[key] {
					c.Violate("C13", "dispute", "fee-refund-claimed-twice", map[string]interface{}{"id": x.Id, "payer": x.PayerAddress})
				}
				m.refundClaims[key] = true
				addTo(m.out, string(d.HashId), dBal.Neg())
				m.divisions += 2
				// "sub-unit dust that is accumulated and burned": whole units are burned in the same call, so what
				// stays accumulated is below one unit (the store counts millionths of a unit)
				if dust, err := c.App.DisputeKeeper.Dust.Get(ctx); err == nil {
					m.st.Count("c13.dust.evals")
					if dust.GTE(math.NewInt(1_000_000)) || dust.IsNegative() {
						c.Violate("C13", "dispute", "accumulated-dust-not-sub-unit-after-refund", map[string]interface{}{"id": x.Id, "dust_millionths": dust.String()})
					}
				}
				if d.DisputeStatus == disputetypes.Failed {
					m.failedPaid[string(d.HashId)] = true
				}
			}
		case *disputetypes.MsgClaimReward:
			if d, ok := m.disputes[x.DisputeId]; ok {
				key := fmt.Sprintf("%d|%s", x.DisputeId, x.CallerAddress)
				m.st.Count("c13.reward-claim.evals")
				m.st.Bucket("c13|reward|result=%s|round=%d", m.votes[x.DisputeId].VoteResult, minInt(int(d.DisputeRound), 3))
				if m.rewardClaims[key] {
					c.Violate("C13", "dispute", "voter-reward-claimed-twice", map[string]interface{}{"id": x.DisputeId, "voter": x.CallerAddress})
				}
				m.rewardClaims[key] = true
				addTo(m.out, string(d.HashId), dBal.Neg())
				m.divisions++
				// "the claims never exceed their pot": what voters took out of this dispute so far vs. its voter reward
				if m.rewardPaid == nil {
					m.rewardPaid = map[string]math.Int{}
				}
				addTo(m.rewardPaid, string(d.HashId), dBal.Neg())
				m.st.Count("c13.reward-pot.evals")
				if paid := m.rewardPaid[string(d.HashId)]; paid.GT(d.VoterReward) {
					c.Violate("C13", "dispute", "voter-reward-claims-exceed-the-pot", map[string]interface{}{"id": x.DisputeId, "paid_so_far": paid.String(), "pot": d.VoterReward.String(), "claimer": x.CallerAddress})
				}
				if dBal.IsPositive() {
					c.Violate("C13", "dispute", "reward-claim-increased-escrow", map[string]interface{}{"id": x.DisputeId})
				}
			}
		}
	}
	for _, id := range fundedNow {
		m.onFunded(c, ctx, id, tx, stake)
	}
	for _, id := range tallied {
		info, err := c.App.DisputeKeeper.BlockInfo.Get(ctx, m.disputes[id].HashId)
		m.checkTally(c, ctx, id, info, err == nil, "tx:"+name)
	}
	m.bal = bal
	m.stake = stake
	m.supplyPrev = supply(c, ctx)
}

// checkAcceptedEvidence: C11 "only for a report the reporter really submitted with the stated value and power".
func (m *DisputeMonitor) checkAcceptedEvidence(c *Chain, ctx sdk.Context, d disputetypes.Dispute) {
	if d.DisputeRound != 1 {
		return
	}
	m.st.Count("c11.evidence.evals")
	in := EvidenceInStore(c, ctx, d.InitialEvidence)
	m.st.Bucket("c11|accepted-dispute|evidence-in-store=%v|cat=%s|status=%s", in, d.DisputeCategory, d.DisputeStatus)
	if !in {
		// which field was altered is the discriminating fact of the finding
		kind := classifyAlteredEvidence(c, ctx, d.InitialEvidence)
		c.Violate("C11", "dispute", "accepted-dispute-for-report-not-in-store:"+kind, map[string]interface{}{"id": d.DisputeId, "reporter": d.InitialEvidence.Reporter, "power": d.InitialEvidence.Power, "value": d.InitialEvidence.Value, "block": d.InitialEvidence.BlockNumber})
	}
}

func classifyAlteredEvidence(c *Chain, ctx sdk.Context, ev oracletypes.MicroReport) string {
	addr, err := sdk.AccAddressFromBech32(ev.Reporter)
	if err != nil {
		return "bad-reporter-address"
	}
	iter, err := c.App.OracleKeeper.Reports.Indexes.Reporter.MatchExact(ctx, addr.Bytes())
	if err != nil {
		return "unknown"
	}
	defer iter.Close()
	best := "no-report-by-this-reporter"
	for ; iter.Valid(); iter.Next() {
		pk, _ := iter.PrimaryKey()
		r, err := c.App.OracleKeeper.Reports.Get(ctx, pk)
		if err != nil {
			continue
		}
		if string(r.QueryId) != string(ev.QueryId) {
			if best == "no-report-by-this-reporter" {
				best = "other-query"
			}
			continue
		}
		if r.BlockNumber != ev.BlockNumber {
			best = "height-altered"
			continue
		}
		switch {
		case r.Power != ev.Power && r.Value != ev.Value:
			return "power-and-value-altered"
		case r.Power != ev.Power:
			return "power-altered"
		case r.Value != ev.Value:
			return "value-altered"
		}
	}
	return best
}

func (m *DisputeMonitor) onVote(c *Chain, ctx sdk.Context, x *disputetypes.MsgVote, prevDisputes map[uint64]disputetypes.Dispute, prevVotes map[uint64]disputetypes.Vote) {
	m.st.Count("c12.vote.evals")
	pd, okd := prevDisputes[x.Id]
	pv, okv := prevVotes[x.Id]
	now := ctx.BlockTime()
	if !okd || pd.DisputeStatus != disputetypes.Voting {
		c.Violate("C12", "dispute", "vote-accepted-when-not-voting", map[string]interface{}{"id": x.Id, "status": fmt.Sprint(pd.DisputeStatus)})
	}
	if okv && now.After(pv.VoteEnd) {
		c.Violate("C12", "dispute", "vote-accepted-after-vote-end", map[string]interface{}{"id": x.Id, "vote_end": pv.VoteEnd.String(), "now": now.String()})
	}
	if m.voted[x.Id] == nil {
		m.voted[x.Id] = map[string]bool{}
	}
	if m.voted[x.Id][x.Voter] {
		c.Violate("C12", "dispute", "second-vote-by-same-address-accepted", map[string]interface{}{"id": x.Id, "voter": x.Voter})
	}
	m.voted[x.Id][x.Voter] = true
	// counters == Σ individual powers, nothing wrapped
	counts, err := c.App.DisputeKeeper.VoteCountsByGroup.Get(ctx, x.Id)
	if err != nil {
		return
	}
	var th, rp, us [3]math.Int
	for i := range th {
		th[i], rp[i], us[i] = math.ZeroInt(), math.ZeroInt(), math.ZeroInt()
	}
	team := c.App.DisputeKeeper
	teamAddr, _ := team.GetTeamAddress(ctx)
	nvoters := 0
	_ = c.App.DisputeKeeper.Voter.Walk(ctx, collections.NewPrefixedPairRange[uint64, []byte](x.Id), func(k collections.Pair[uint64, []byte], v disputetypes.Voter) (bool, error) {
		i := int(v.Vote)
		if i < 0 || i > 2 {
			i = 0
		}
		nvoters++
		th[i] = th[i].Add(v.TokenholderPower)
		rp[i] = rp[i].Add(v.ReporterPower)
		// user weight: the voter's tips as of the dispute's block, read from the oracle module
		if okd {
			us[i] = us[i].Add(ownTipsAtBlock(c, ctx, sdk.AccAddress(k.K2()), pd.BlockNumber))
		}
		return false, nil
	})
	// VoteEnum: 0 invalid, 1 support, 2 against
	cmp := func(group string, c3 disputetypes.VoteCounts, sums [3]math.Int) {
		got := [3]uint64{c3.Invalid, c3.Support, c3.Against}
		for i := 0; i < 3; i++ {
			if got[i] >= 1<<63 {
				c.Violate("C12", "dispute", "vote-counter-wrapped:"+group, map[string]interface{}{"id": x.Id, "count": got[i]})
				return
			}
			if !sums[i].Equal(math.NewIntFromUint64(got[i])) {
				c.Violate("C12", "dispute", "group-count-differs-from-sum-of-voter-powers:"+group, map[string]interface{}{"id": x.Id, "choice": i, "count": got[i], "sum": sums[i].String(), "voters": nvoters})
				return
			}
		}
	}
	cmp("tokenholders", counts.Tokenholders, th)
	cmp("reporters", counts.Reporters, rp)
	cmp("users", counts.Users, us)
	// the voter's own record: token weight = current liquid balance + stake recorded at the dispute block
	v, err := c.App.DisputeKeeper.Voter.Get(ctx, collections.Join(x.Id, sdk.MustAccAddressFromBech32(x.Voter).Bytes()))
	if err == nil && okd {
		addr := sdk.MustAccAddressFromBech32(x.Voter)
		bal := c.App.BankKeeper.GetBalance(ctx, addr, Denom).Amount
		// stake and tips "as of the dispute's block": read from the snapshot collections directly (util.go)
		sel, _, selAmbiguous := ownDelegatorTokensAt(c, ctx, addr, pd.BlockNumber)
		isTeam := string(addr) == string(teamAddr)
		tips := ownTipsAtBlock(c, ctx, addr, pd.BlockNumber)
		m.st.Bucket("c12|vote|team=%v|tips=%v|selector=%v|holder=%v|choice=%d", isTeam, tips.IsPositive(), sel.IsPositive(), bal.IsPositive(), int(x.Vote))
		if selAmbiguous {
			m.st.Count("c12.vote.skipped-two-snapshots-in-the-dispute-block")
		} else if !v.TokenholderPower.Equal(bal.Add(sel)) {
			c.Violate("C12", "dispute", "tokenholder-power-not-balance-plus-stake", map[string]interface{}{"id": x.Id, "recorded": v.TokenholderPower.String(), "balance": bal.String(), "stake_at_dispute_block": sel.String()})
		}
		wantUser := tips
		gotUser := v.VoterPower.Sub(v.TokenholderPower).Sub(v.ReporterPower)
		if isTeam {
			gotUser = gotUser.SubRaw(25000000)
		}
		if !gotUser.Equal(wantUser) {
			c.Violate("C12", "dispute", "user-power-not-tips-at-dispute-block", map[string]interface{}{"id": x.Id, "recorded": gotUser.String(), "tips": wantUser.String()})
		}
		m.reporterStakeOnce(c, ctx, x.Id, pd.BlockNumber, addr, v)
	}
}

// reporterStakeOnce: "a selector's own vote is removed from its reporter's weight so that no reporting stake counts
// twice": a voting selector carries its own stake (as of the dispute's block); a voting reporter carries the stake
// selected to it minus the stake of every one of its selectors that has voted, whichever voted first.
func (m *DisputeMonitor) reporterStakeOnce(c *Chain, ctx sdk.Context, id, block uint64, voter sdk.AccAddress, v disputetypes.Voter) {
	sel, err := c.App.ReporterKeeper.Selectors.Get(ctx, voter.Bytes())
	if err != nil {
		if !v.ReporterPower.IsZero() {
			c.Violate("C12", "dispute", "reporter-power-for-voter-without-selection", map[string]interface{}{"id": id, "recorded": v.ReporterPower.String()})
		}
		return
	}
	rep := sdk.AccAddress(sel.Reporter)
	if m.selVoted[id] == nil {
		m.selVoted[id] = map[string]map[string]math.Int{}
	}
	if m.selVoted[id][string(rep)] == nil {
		m.selVoted[id][string(rep)] = map[string]math.Int{}
	}
	own := m.selVoted[id][string(rep)]
	if !rep.Equals(voter) {
		t, _, amb := ownDelegatorTokensAt(c, ctx, voter.Bytes(), block)
		if amb {
			m.st.Count("c12.stake-once.skipped-two-snapshots-in-the-dispute-block")
			return
		}
		own[string(voter)] = t
		if !v.ReporterPower.Equal(t) {
			c.Violate("C12", "dispute", "selector-vote-not-its-own-stake-at-dispute-block", map[string]interface{}{"id": id, "recorded": v.ReporterPower.String(), "stake": t.String()})
		}
	}
	// the reporter's record, if it has voted (now or earlier)
	rv, err := c.App.DisputeKeeper.Voter.Get(ctx, collections.Join(id, rep.Bytes()))
	if err != nil {
		m.st.Bucket("c12|stake-once|reporter-voted=false|selectors-voted=%d", minInt(len(own), 3))
		return
	}
	rsnap, found, amb := ownSnapshotAt(c, ctx, rep.Bytes(), block)
	if amb {
		m.st.Count("c12.stake-once.skipped-two-snapshots-in-the-dispute-block")
		return
	}
	total := math.ZeroInt()
	if found && !rsnap.Total.IsNil() {
		total = rsnap.Total
	}
	want := total
	for _, t := range own {
		want = want.Sub(t)
	}
	m.st.Count("c12.stake-once.evals")
	m.st.Bucket("c12|stake-once|reporter-voted=true|reporter-last=%v|selectors-voted=%d", rep.Equals(voter), minInt(len(own), 3))
	if !rv.ReporterPower.Equal(want) {
		c.Violate("C12", "dispute", fmt.Sprintf("reporter-weight-not-stake-minus-voted-selectors:selectors-voted=%d:reporter-voted-last=%v", minInt(len(own), 3), rep.Equals(voter)),
			map[string]interface{}{"id": id, "reporter": rep.String(), "recorded": rv.ReporterPower.String(), "stake_at_dispute_block": total.String(), "want": want.String(), "selectors_voted": len(own)})
	}
}

// onFunded: C11 clauses at the transaction that completes a dispute's fee.
func (m *DisputeMonitor) onFunded(c *Chain, ctx sdk.Context, id uint64, tx sdk.Tx, stakeAfter map[string]math.Int) {
	d := m.disputes[id]
	h := string(d.HashId)
	// "when a dispute becomes fully funded": the first round's fee is the category's share of the disputed stake
	if d.DisputeRound == 1 {
		m.st.Bucket("c11|funding-complete|paid-vs-fee=%d", d.FeeTotal.BigInt().Cmp(d.SlashAmount.BigInt()))
		if d.FeeTotal.LT(d.SlashAmount) {
			c.Violate("C11", "dispute", "dispute-treated-as-funded-before-its-fee-was-complete", map[string]interface{}{"id": id, "paid": d.FeeTotal.String(), "fee": d.SlashAmount.String(), "category": d.DisputeCategory.String()})
		}
	}
	m.funded[h]++
	m.st.Count("c11.funding.evals")
	if m.funded[h] > 1 {
		c.Violate("C11", "dispute", "slashed-twice-for-one-dispute", map[string]interface{}{"id": id})
	}
	ev := d.InitialEvidence
	inStore := EvidenceInStore(c, ctx, ev)
	addr, err := sdk.AccAddressFromBech32(ev.Reporter)
	if err != nil {
		return
	}
	pct := map[disputetypes.DisputeCategory]int64{disputetypes.Warning: 1, disputetypes.Minor: 5, disputetypes.Major: 100}[d.DisputeCategory]
	// jailing
	rep, err := c.App.ReporterKeeper.Reporters.Get(ctx, addr.Bytes())
	if err == nil {
		switch d.DisputeCategory {
		case disputetypes.Warning:
			if !rep.Jailed || rep.JailedUntil.After(ctx.BlockTime()) {
				c.Violate("C11", "dispute", "warning-jail-wrong", map[string]interface{}{"id": id, "jailed": rep.Jailed, "until": rep.JailedUntil.String(), "now": ctx.BlockTime().String()})
			}
		case disputetypes.Minor:
			if !rep.Jailed || !rep.JailedUntil.Equal(ctx.BlockTime().Add(600_000_000_000)) {
				c.Violate("C11", "dispute", "minor-jail-wrong", map[string]interface{}{"id": id, "jailed": rep.Jailed, "until": rep.JailedUntil.String(), "now": ctx.BlockTime().String()})
			}
		}
	}
	// escrow record and per-backer loss
	rec, err := c.App.ReporterKeeper.DisputedDelegationAmounts.Get(ctx, d.HashId)
	if err != nil {
		c.Violate("C11", "dispute", "funded-dispute-without-escrow-record", map[string]interface{}{"id": id})
		return
	}
	m.st.Bucket("c11|funded|cat=%s|in-store=%v|origins=%d|from-bond-payer=%v", d.DisputeCategory, inStore, minInt(len(rec.TokenOrigins), 4), hasFromBond(tx))
	if !inStore {
		return // reported separately (accepted-dispute-for-report-not-in-store)
	}
	snap, err := c.App.ReporterKeeper.Report.Get(ctx, collJoinReport(ev.QueryId, addr, ev.BlockNumber))
	if err != nil {
		return
	}
	// expected total: pct of the stake that backed the report (power * 1e6)
	wantTotal := math.NewInt(int64(ev.Power)).MulRaw(1_000_000).MulRaw(pct).QuoRaw(100)
	if !rec.Total.Equal(wantTotal) || !d.SlashAmount.Equal(wantTotal) {
		c.Violate("C11", "dispute", "slash-amount-not-category-share", map[string]interface{}{"id": id, "recorded": rec.Total.String(), "slash": d.SlashAmount.String(), "want": wantTotal.String()})
	}
	if hasFromBond(tx) {
		m.st.Count("c11.per-backer-skipped-fee-from-stake-in-same-tx")
		return
	}
	perDel := map[string]math.Int{}
	for _, o := range snap.TokenOrigins {
		addTo(perDel, sdk.AccAddress(o.DelegatorAddress).String(), o.Amount)
	}
	norig := int64(len(snap.TokenOrigins))
	totalLoss := math.ZeroInt()
	for del, amt := range perDel {
		before, ok := m.stake[del]
		if !ok {
			before = math.ZeroInt()
		}
		after, ok := stakeAfter[del]
		if !ok {
			after = math.ZeroInt()
		}
		loss := before.Sub(after)
		totalLoss = totalLoss.Add(loss)
		// proportional share; the reported power is floor(stake/1e6), the remainder of the division is taken from the last backer
		want := amt.MulRaw(pct).QuoRaw(100)
		diff := loss.Sub(want).Abs()
		// the apportioning divides by power*1e6 (not by the exact stake) and gives the leftover to the last origin: allow that leftover
		leftover := snap.Total.Sub(math.NewInt(int64(ev.Power)).MulRaw(1_000_000)).Abs().MulRaw(pct).QuoRaw(100).AddRaw(norig + 1)
		if diff.GT(leftover) {
			c.Violate("C11", "dispute", "backer-loss-not-proportional", map[string]interface{}{"id": id, "backer": del, "loss": loss.String(), "want": want.String(), "tolerance": leftover.String(), "cat": d.DisputeCategory.String()})
			break
		}
	}
	if totalLoss.Sub(wantTotal).Abs().GT(math.NewInt(norig + 1)) {
		c.Violate("C11", "dispute", "total-slashed-not-category-share", map[string]interface{}{"id": id, "lost": totalLoss.String(), "want": wantTotal.String()})
	}
	// the aggregate this report determined is flagged
	iter, err := c.App.OracleKeeper.Aggregates.Indexes.MicroHeight.MatchExact(ctx, ev.BlockNumber)
	if err == nil {
		defer iter.Close()
		for ; iter.Valid(); iter.Next() {
			pk, _ := iter.PrimaryKey()
			if string(pk.K1()) != string(ev.QueryId) {
				continue
			}
			agg, err := c.App.OracleKeeper.Aggregates.Get(ctx, pk)
			if err != nil || int(agg.AggregateReportIndex) >= len(agg.Reporters) {
				continue
			}
			if agg.Reporters[agg.AggregateReportIndex].Reporter == ev.Reporter && !agg.Flagged {
				c.Violate("C11", "dispute", "determined-aggregate-not-flagged", map[string]interface{}{"id": id})
			}
			m.st.Count("c11.flag.evals")
		}
	}
}

func hasFromBond(tx sdk.Tx) bool {
	for _, msg := range tx.GetMsgs() {
		switch x := msg.(type) {
		case *disputetypes.MsgProposeDispute:
			if x.PayFromBond {
				return true
			}
		case *disputetypes.MsgAddFeeToDispute:
			if x.PayFromBond {
				return true
			}
		}
	}
	return false
}

// ---- BeginBlock: expiry, tally, execution ----

func (m *DisputeMonitor) BeginBlockExit(c *Chain, ctx sdk.Context, err error) {
	if err != nil {
		return
	}
	// BlockInfo of disputes about to be executed is removed at execution: the tally check uses the supply now and the
	// recorded totals, so read the infos of tallied-and-executed disputes from the committed state of the previous block
	prevCtx := c.CommittedCtx()
	_, _, tallied := m.observe(c, ctx, "beginblock")
	for _, id := range tallied {
		info, e := c.App.DisputeKeeper.BlockInfo.Get(ctx, m.disputes[id].HashId)
		if e != nil {
			info, e = c.App.DisputeKeeper.BlockInfo.Get(prevCtx, m.disputes[id].HashId)
		}
		m.checkTally(c, ctx, id, info, e == nil, "beginblock")
	}
	bal := modBal(c, ctx, disputetypes.ModuleName)
	var execNow []uint64
	for id, v := range m.votes {
		if v.Executed && !m.s1Exec[id] {
			execNow = append(execNow, id)
			m.executed[id]++
		}
	}
	sort.Slice(execNow, func(i, j int) bool { return execNow[i] < execNow[j] })
	if len(execNow) > 0 {
		m.st.Count("c13.execution.evals")
		dOut := m.bal.Sub(bal) // what left escrow in this BeginBlock
		if len(execNow) == 1 {
			d := m.disputes[execNow[0]]
			res, quorum := resultClass(m.votes[execNow[0]].VoteResult)
			m.st.Bucket("c13|executed|result=%s|quorum=%v|round=%d|cat=%s", res, quorum, minInt(int(d.DisputeRound), 4), d.DisputeCategory)
			addTo(m.out, string(d.HashId), dOut)
			m.checkExecutionAmounts(c, ctx, d, m.votes[execNow[0]], dOut)
		} else {
			// several executions in one block: only the joint flow is attributable, the disputes are settled as one group
			first := string(m.disputes[execNow[0]].HashId)
			addTo(m.out, first, dOut)
			for _, id := range execNow[1:] {
				m.union(string(m.disputes[id].HashId), first)
			}
			m.st.Bucket("c13|executed-jointly|n=%d", minInt(len(execNow), 4))
		}
		for _, id := range execNow {
			if m.executed[id] > 1 {
				c.Violate("C13", "dispute", "dispute-executed-twice", map[string]interface{}{"id": id})
			}
			for _, later := range m.disputes {
				if later.DisputeId > id && string(later.HashId) == string(m.disputes[id].HashId) {
					c.Violate("C12", "dispute", "superseded-round-executed", map[string]interface{}{"id": id, "later_round": later.DisputeId})
					c.Violate("C13", "dispute", "superseded-round-executed", map[string]interface{}{"id": id, "later_round": later.DisputeId})
					break
				}
			}
		}
	}
	m.bal = bal
	m.stake = stakeOf(c, ctx)
	m.supplyPrev = supply(c, ctx)
}

// checkExecutionAmounts: reference rules of ADR 1006/1007 for what leaves escrow at execution.
func (m *DisputeMonitor) checkExecutionAmounts(c *Chain, ctx sdk.Context, d disputetypes.Dispute, v disputetypes.Vote, left math.Int) {
	res, _ := resultClass(v.VoteResult)
	half := d.BurnAmount.QuoRaw(2)
	// when nobody voted in any round the whole burn amount is burned
	anyVoter := false
	for _, pid := range d.PrevDisputeIds {
		if vs, ok := m.voted[pid]; ok && len(vs) > 0 {
			anyVoter = true
		}
	}
	burn := half
	if !anyVoter {
		burn = d.BurnAmount
	}
	// SlashAmount may have been raised by the execution itself (against): use the escrow record's total as the stake
	stakeAmt := math.NewInt(int64(d.InitialEvidence.Power)).MulRaw(1_000_000)
	pct := map[disputetypes.DisputeCategory]int64{disputetypes.Warning: 1, disputetypes.Minor: 5, disputetypes.Major: 100}[d.DisputeCategory]
	slash := stakeAmt.MulRaw(pct).QuoRaw(100)
	var want math.Int
	switch res {
	case "support":
		want = burn
	case "invalid":
		want = burn.Add(slash)
	case "against":
		// the reporter's backers get their stake back plus what is left of the first round's fee after the burn amount;
		// once the accumulated round fees exceed that fee nothing is left of it (never a negative amount: F34)
		rest := slash.Sub(d.BurnAmount)
		if rest.IsNegative() {
			rest = math.ZeroInt()
		}
		want = burn.Add(slash).Add(rest)
	default:
		return
	}
	if !left.Equal(want) {
		c.Violate("C13", "dispute", fmt.Sprintf("execution-outflow-not-implied-by-result:%s:voters=%v", res, anyVoter), map[string]interface{}{"id": d.DisputeId, "left_escrow": left.String(), "want": want.String(), "burn_amount": d.BurnAmount.String(), "slash": slash.String(), "round": d.DisputeRound})
	}
}

// Settle is called by the driver after it made every party claim: what remains of settled disputes must be dust.
func (m *DisputeMonitor) Settle(c *Chain, ctx sdk.Context) {
	bal := modBal(c, ctx, disputetypes.ModuleName)
	dust, _ := c.App.DisputeKeeper.Dust.Get(ctx)
	// per hash: latest round
	latest := map[string]disputetypes.Dispute{}
	for _, d := range m.disputes {
		if cur, ok := latest[string(d.HashId)]; !ok || d.DisputeId > cur.DisputeId {
			latest[string(d.HashId)] = d
		}
	}
	residue := math.ZeroInt()
	settled := 0
	// sum the ledgers of disputes that were executed in the same block (their outflow is only known jointly)
	gin, gout, gsize := map[string]math.Int{}, map[string]math.Int{}, map[string]int{}
	for h := range latest {
		r := m.find(h)
		if v, ok := m.in[h]; ok {
			addTo(gin, r, v)
		}
		if v, ok := m.out[h]; ok {
			addTo(gout, r, v)
		}
		gsize[r]++
	}
	for h := range latest {
		if m.fromBondHash[h] {
			m.fromBondHash[m.find(h)] = true
		}
	}
	done := map[string]bool{}
	for h, d := range latest {
		r := m.find(h)
		if done[r] {
			continue
		}
		v := m.votes[d.DisputeId]
		if !v.Executed {
			continue // unsettled or failed: not the subject of the residue clause
		}
		done[r] = true
		in, ok := gin[r]
		if !ok {
			in = math.ZeroInt()
		}
		out, ok := gout[r]
		if !ok {
			out = math.ZeroInt()
		}
		if gsize[r] > 1 {
			m.st.Count("c13.residue.joint-group-evals")
		}
		settled++
		left := in.Sub(out)
		// unclaimed entitlements that the driver could not collect (e.g. payer records of later rounds) are listed for context
		residue = residue.Add(left)
		m.st.Count("c13.residue.evals")
		bound := math.NewInt(m.divisions + 4)
		if left.IsNegative() {
			// a fee paid from stake and stake escrowed from a validator whose share price is not 1 are both
			// collected with truncation (a unit per selector / origin), while the full amounts are recorded and paid back
			class := "large"
			if left.Neg().LTE(math.NewInt(8 * int64(gsize[r]))) {
				class = "within-collection-rounding"
			}
			c.Violate("C13", "dispute", "settled-dispute-paid-out-more-than-paid-in:"+class, map[string]interface{}{"id": d.DisputeId, "in": in.String(), "out": out.String()})
		} else if left.GT(bound) {
			unclaimed := m.unclaimed(c, ctx, d)
			res, _ := resultClass(v.VoteResult)
			if gsize[r] > 1 {
				res = "joint-group"
			}
			// discriminating fact: does the group contain a dispute with more than one round? (their fee refunds
			// cannot be claimed at all: payer records stay under the first round's id, whose vote is never executed)
			maxRound := uint64(0)
			for h2, d2 := range latest {
				if m.find(h2) == r && d2.DisputeRound > maxRound {
					maxRound = d2.DisputeRound
				}
			}
			anyFromBond := false
			payersLeft := 0
			for h2, d2 := range latest {
				if m.find(h2) == r {
					if m.fromBondHash[h2] {
						anyFromBond = true
					}
					if m.votes[d2.DisputeId].VoteResult != disputetypes.VoteResult_AGAINST && m.votes[d2.DisputeId].VoteResult != disputetypes.VoteResult_NO_QUORUM_MAJORITY_AGAINST {
						payersLeft += m.payersLeft(c, ctx, d2)
					}
				}
			}
			switch {
			case maxRound >= 2:
				res = "multi-round"
				unclaimed = "n/a"
			case anyFromBond && payersLeft > 0:
				// a second payer who paid from stake cannot be refunded: the first refund removes the dispute's whole fee-from-stake record
				res = "fee-from-stake-payer-unclaimable"
				unclaimed = "n/a"
			}
			var members []string
			for h2, d2 := range latest {
				if m.find(h2) == r {
					i2, o2 := m.in[h2], m.out[h2]
					members = append(members, fmt.Sprintf("id=%d res=%s round=%d fee=%s slash=%s burn=%s reward=%s in=%v out=%v frombond=%v", d2.DisputeId, m.votes[d2.DisputeId].VoteResult, d2.DisputeRound, d2.FeeTotal, d2.SlashAmount, d2.BurnAmount, d2.VoterReward, i2, o2, m.fromBondHash[h2]))
				}
			}
			sort.Strings(members)
			c.Violate("C13", "dispute", fmt.Sprintf("residue-after-all-claims:%s:unclaimed=%s", res, unclaimed), map[string]interface{}{"id": d.DisputeId, "in": in.String(), "out": out.String(), "left": left.String(), "bound": bound.String(), "members": members, "result": v.VoteResult.String(), "voter_reward": d.VoterReward.String(), "fee_total": d.FeeTotal.String(), "slash": d.SlashAmount.String(), "burn": d.BurnAmount.String()})
		}
	}
	m.st.Bucket("c13|settle|settled=%d", minInt(settled, 6))
	_ = bal
	_ = dust
}

// unclaimed describes which entitlements of a settled dispute are still recorded after the driver claimed everything.
func (m *DisputeMonitor) unclaimed(c *Chain, ctx sdk.Context, d disputetypes.Dispute) string {
	payers := 0
	for _, pid := range d.PrevDisputeIds {
		_ = c.App.DisputeKeeper.DisputeFeePayer.Walk(ctx, collections.NewPrefixedPairRange[uint64, []byte](pid), func(k collections.Pair[uint64, []byte], _ disputetypes.PayerInfo) (bool, error) {
			payers++
			return false, nil
		})
	}
	voters := 0
	seen := map[string]bool{}
	for _, pid := range d.PrevDisputeIds {
		_ = c.App.DisputeKeeper.Voter.Walk(ctx, collections.NewPrefixedPairRange[uint64, []byte](pid), func(k collections.Pair[uint64, []byte], v disputetypes.Voter) (bool, error) {
			a := sdk.AccAddress(k.K2()).String()
			if !seen[a] && !m.rewardClaims[fmt.Sprintf("%d|%s", d.DisputeId, a)] && v.VoterPower.IsPositive() {
				voters++
			}
			seen[a] = true
			return false, nil
		})
	}
	return fmt.Sprintf("payers=%d,voters=%d", minInt(payers, 3), minInt(voters, 3))
}

// firstStageQuorum: 25% for the team's vote plus 25% x cast/total for users and reporters reaches 51%.
func (m *DisputeMonitor) firstStageQuorum(counts disputetypes.StakeholderVoteCounts, info disputetypes.BlockInfo) bool {
	ratio := new(big.Rat)
	if counts.Team.Support+counts.Team.Against+counts.Team.Invalid > 0 {
		ratio.Add(ratio, big.NewRat(25, 1))
	}
	add := func(c3 disputetypes.VoteCounts, total *big.Int) {
		cast := new(big.Int).SetUint64(c3.Support)
		cast.Add(cast, new(big.Int).SetUint64(c3.Against))
		cast.Add(cast, new(big.Int).SetUint64(c3.Invalid))
		if total.Sign() > 0 && cast.Sign() > 0 {
			ratio.Add(ratio, new(big.Rat).Mul(big.NewRat(25, 1), new(big.Rat).SetFrac(cast, total)))
		}
	}
	add(counts.Users, info.TotalUserTips.BigInt())
	add(counts.Reporters, info.TotalReporterPower.BigInt())
	return ratio.Cmp(big.NewRat(51, 1)) >= 0
}

func (m *DisputeMonitor) payersLeft(c *Chain, ctx sdk.Context, d disputetypes.Dispute) int {
	n := 0
	for _, pid := range d.PrevDisputeIds {
		_ = c.App.DisputeKeeper.DisputeFeePayer.Walk(ctx, collections.NewPrefixedPairRange[uint64, []byte](pid), func(k collections.Pair[uint64, []byte], _ disputetypes.PayerInfo) (bool, error) {
			n++
			return false, nil
		})
	}
	return n
}
