package sim

import (
	"fmt"
	"math/big"
	"time"

	minttypes "github.com/tellor-io/layer/x/mint/types"
	oracletypes "github.com/tellor-io/layer/x/oracle/types"
	reportertypes "github.com/tellor-io/layer/x/reporter/types"

	"cosmossdk.io/collections"
	"cosmossdk.io/math"

	sdk "github.com/cosmos/cosmos-sdk/types"
	stakingtypes "github.com/cosmos/cosmos-sdk/x/staking/types"
)

// C18ChainMonitor: through the full ante chain, every transaction that passed admission respected the combined
// +-5% band on the pre-state, and the recorded baseline is refreshed only after its 12 hours have passed.
type C18ChainMonitor struct {
	BaseMonitor
	st      *Stats
	bonded  math.Int
	tracker reportertypes.StakeTracker
	have    bool
}

func NewC18ChainMonitor(st *Stats) *C18ChainMonitor { return &C18ChainMonitor{st: st} }
func (m *C18ChainMonitor) Name() string             { return "c18chain" }

func (m *C18ChainMonitor) refresh(c *Chain, ctx sdk.Context) {
	if c.Height == 0 && ctx.BlockHeight() == 0 {
		return // nothing committed yet
	}
	b, err := c.App.StakingKeeper.TotalBondedTokens(ctx)
	if err == nil {
		m.bonded = b
	}
	t, err := c.App.ReporterKeeper.Tracker.Get(ctx)
	m.have = err == nil && t.Expiration != nil
	if m.have {
		m.tracker = t
	}
}

func (m *C18ChainMonitor) BeforeBlock(c *Chain, ctx sdk.Context)               { m.refresh(c, ctx) }
func (m *C18ChainMonitor) BeginBlockExit(c *Chain, ctx sdk.Context, err error) { m.refresh(c, ctx) }

func (m *C18ChainMonitor) AfterTx(c *Chain, ctx sdk.Context, tx sdk.Tx, ok bool) {
	// the post handler only runs for transactions that passed the ante chain (admission), successful or not
	add, sub := math.ZeroInt(), math.ZeroInt()
	n := 0
	for _, msg := range tx.GetMsgs() {
		switch x := msg.(type) {
		case *stakingtypes.MsgCreateValidator:
			add = add.Add(x.Value.Amount)
		case *stakingtypes.MsgDelegate:
			add = add.Add(x.Amount.Amount)
		case *stakingtypes.MsgBeginRedelegate:
			add = add.Add(x.Amount.Amount)
		case *stakingtypes.MsgCancelUnbondingDelegation:
			add = add.Add(x.Amount.Amount)
		case *stakingtypes.MsgUndelegate:
			sub = sub.Add(x.Amount.Amount)
		default:
			continue
		}
		n++
	}
	if n > 0 && m.have && ctx.BlockHeight() > 1 {
		m.st.Count("c18.admitted-staking-tx.evals")
		base := m.tracker.Amount
		m.st.Bucket("c18chain|admitted|msgs=%d|add=%v|sub=%v", minInt(n, 4), add.IsPositive(), sub.IsPositive())
		if add.IsPositive() && new(big.Int).Mul(m.bonded.Add(add).BigInt(), big.NewInt(20)).Cmp(new(big.Int).Mul(base.BigInt(), big.NewInt(21))) > 0 {
			c.Violate("C18", "c18chain", "admitted-tx-raises-bonded-stake-above-105pct", map[string]interface{}{"bonded": m.bonded.String(), "baseline": base.String(), "adding": add.String(), "msgs": n})
		}
		if sub.IsPositive() && new(big.Int).Mul(m.bonded.Sub(sub).BigInt(), big.NewInt(20)).Cmp(new(big.Int).Mul(base.BigInt(), big.NewInt(19))) < 0 {
			c.Violate("C18", "c18chain", "admitted-tx-lowers-bonded-stake-below-95pct", map[string]interface{}{"bonded": m.bonded.String(), "baseline": base.String(), "removing": sub.String(), "msgs": n})
		}
	}
	if ok {
		m.refresh(c, ctx)
	}
}

func (m *C18ChainMonitor) EndBlockExit(c *Chain, ctx sdk.Context, err error) {
	if err != nil || !m.have {
		m.refresh(c, ctx)
		return
	}
	old := m.tracker
	t, e := c.App.ReporterKeeper.Tracker.Get(ctx)
	if e != nil || t.Expiration == nil {
		return
	}
	m.st.Count("c18.tracker.evals")
	changed := !t.Amount.Equal(old.Amount) || !t.Expiration.Equal(*old.Expiration)
	expired := !ctx.BlockTime().Before(*old.Expiration)
	m.st.Bucket("c18chain|tracker|expired=%v|changed=%v", expired, changed)
	if changed && !expired {
		c.Violate("C18", "c18chain", "baseline-refreshed-before-its-12-hours-passed", map[string]interface{}{"expiration": old.Expiration.String(), "now": ctx.BlockTime().String()})
	}
	if changed && expired {
		bonded, _ := c.App.StakingKeeper.TotalBondedTokens(ctx)
		if !t.Amount.Equal(bonded) || !t.Expiration.Equal(ctx.BlockTime().Add(12*time.Hour)) {
			c.Violate("C18", "c18chain", "refreshed-baseline-not-current-bonded-stake-for-12h", map[string]interface{}{"amount": t.Amount.String(), "bonded": bonded.String(), "expiration": t.Expiration.String()})
		}
	}
	m.refresh(c, ctx)
}

// C09ChainMonitor: time-based rewards go only to cycle-list / bridge-deposit aggregates and use up exactly the pool's
// balance of that block; what enters the tips escrow at aggregation is exactly the tips of the aggregated rounds plus that.
type C09ChainMonitor struct {
	BaseMonitor
	st         *Stats
	tbr        math.Int
	escrow     math.Int
	queries    map[string]oracletypes.QueryMeta
	credits    map[string]math.LegacyDec // SelectorTips at EndBlock entry
	reportedAt map[string]int64          // query id | reporter -> height of its last accepted report
}

func NewC09ChainMonitor(st *Stats) *C09ChainMonitor { return &C09ChainMonitor{st: st} }
func (m *C09ChainMonitor) Name() string             { return "c09chain" }

// AfterTx: "each selector's stake recorded when the report was made" - the stake snapshot stored for an accepted report
// is, per backer, what that backer has delegated to bonded validators at this moment according to x/staking (added after
// C09-j, which kept the snapshot of an earlier report of the same block).
func (m *C09ChainMonitor) AfterTx(c *Chain, ctx sdk.Context, tx sdk.Tx, ok bool) {
	if !ok {
		return
	}
	for _, msg := range tx.GetMsgs() {
		x, isReport := msg.(*oracletypes.MsgSubmitValue)
		if !isReport {
			continue
		}
		rep, err := sdk.AccAddressFromBech32(x.Creator)
		if err != nil {
			continue
		}
		qid := QueryID(x.QueryData)
		snap, err := c.App.ReporterKeeper.Report.Get(ctx, collJoinReport(qid, rep, uint64(ctx.BlockHeight())))
		if err != nil {
			continue
		}
		got := map[string]math.Int{}
		for _, o := range snap.TokenOrigins {
			addTo(got, sdk.AccAddress(o.DelegatorAddress).String(), o.Amount)
		}
		iter, err := c.App.ReporterKeeper.Selectors.Indexes.Reporter.MatchExact(ctx, rep.Bytes())
		if err != nil {
			continue
		}
		var sels []sdk.AccAddress
		for ; iter.Valid(); iter.Next() {
			if k, err := iter.PrimaryKey(); err == nil {
				sels = append(sels, sdk.AccAddress(k))
			}
		}
		iter.Close()
		m.st.Count("c09chain.snapshot.evals")
		bad := ""
		seen := map[string]bool{}
		for _, s := range sels {
			sel, err := c.App.ReporterKeeper.Selectors.Get(ctx, s.Bytes())
			if err != nil || sel.LockedUntilTime.After(ctx.BlockTime()) {
				continue
			}
			lo, hi, _, _ := bondedStake(c, ctx, s)
			g, ok := got[s.String()]
			if !ok {
				g = math.ZeroInt()
			}
			seen[s.String()] = true
			if g.LT(lo) || g.GT(hi) {
				bad = fmt.Sprintf("backer %s recorded with %s, has %s..%s bonded", s.String(), g, lo, hi)
			}
		}
		for d, g := range got {
			if !seen[d] && g.IsPositive() {
				bad = fmt.Sprintf("recorded backer %s (%s) is not an active selector of the reporter", d, g)
			}
		}
		m.st.Bucket("c09chain|snapshot|backers=%d|second-report-of-the-block=%v", minInt(len(got), 4), m.reportedAt[string(qid)+"|"+x.Creator] == ctx.BlockHeight())
		if m.reportedAt == nil {
			m.reportedAt = map[string]int64{}
		}
		m.reportedAt[string(qid)+"|"+x.Creator] = ctx.BlockHeight()
		if bad != "" {
			c.Violate("C09", "c09chain", "stake-snapshot-of-the-report-is-not-the-stake-selected-when-it-was-made", map[string]interface{}{"reporter": x.Creator, "why": bad})
		}
	}
}

func (m *C09ChainMonitor) EndBlockEntry(c *Chain, ctx sdk.Context) {
	m.credits, _ = selectorTips(c, ctx)
	m.tbr = modBal(c, ctx, minttypes.TimeBasedRewards)
	m.escrow = modBal(c, ctx, reportertypes.TipsEscrowPool)
	_, m.queries = allQueries(c, ctx)
}

func (m *C09ChainMonitor) EndBlockExit(c *Chain, ctx sdk.Context, err error) {
	if err != nil {
		return
	}
	h := uint64(ctx.BlockHeight())
	tbrAfter := modBal(c, ctx, minttypes.TimeBasedRewards)
	in := modBal(c, ctx, reportertypes.TipsEscrowPool).Sub(m.escrow)
	// which rounds were aggregated, and were they cycle-list / deposit rounds (flag of their reports)
	cycleAgg, anyAgg := 0, 0
	tips := math.ZeroInt()
	for k, q := range m.queries {
		if !(q.HasRevealedReports && q.Expiration <= h) {
			continue
		}
		anyAgg++
		tips = tips.Add(q.Amount)
		isDep, toLayer := bridgeQueryKind(q.QueryData)
		if q.CycleList || (isDep && toLayer) {
			cycleAgg++
		}
		_ = k
	}
	if anyAgg == 0 && in.IsZero() && tbrAfter.Equal(m.tbr) {
		return
	}
	m.st.Count("c09.tbr.evals")
	m.st.Bucket("c09chain|endblock|aggregated=%d|cyclelist=%d|tbr-before=%v|tbr-paid=%v", minInt(anyAgg, 3), minInt(cycleAgg, 3), m.tbr.IsPositive(), tbrAfter.LT(m.tbr))
	paid := m.tbr.Sub(tbrAfter)
	if paid.IsNegative() {
		c.Violate("C09", "c09chain", "time-based-reward-pool-grew-in-endblock", nil)
		return
	}
	if paid.IsPositive() {
		if cycleAgg == 0 {
			c.Violate("C09", "c09chain", "time-based-rewards-paid-without-cycle-list-or-deposit-aggregate", map[string]interface{}{"paid": paid.String()})
		}
		if !tbrAfter.IsZero() {
			c.Violate("C09", "c09chain", "time-based-rewards-did-not-use-up-the-pool", map[string]interface{}{"left": tbrAfter.String()})
		}
	} else if cycleAgg > 0 && m.tbr.IsPositive() {
		// not a violation: the statement only says where time-based rewards may go (a round that became the scheduled
		// query after its first report was submitted carries reports without the cycle-list mark)
		m.st.Count("c09.tbr.cycle-list-round-without-reward")
	}
	if !in.Equal(tips.Add(paid)) {
		c.Violate("C09", "c09chain", "tips-escrow-inflow-not-tips-plus-time-based-reward", map[string]interface{}{"inflow": in.String(), "tips": tips.String(), "tbr": paid.String()})
	}
	// "each selector's credits sum exactly to the reward": what the oracle EndBlocker credited in this block is what it
	// moved into the escrow pool (18-decimal credits: one ulp per credit written)
	after, _ := selectorTips(c, ctx)
	sum := math.LegacyZeroDec()
	n := int64(0)
	for k, v := range after {
		old, ok := m.credits[k]
		if !ok {
			old = math.LegacyZeroDec()
		}
		if !v.Equal(old) {
			sum = sum.Add(v.Sub(old))
			n++
		}
	}
	if n > 0 || in.IsPositive() {
		m.st.Count("c09.block-credits.evals")
		diff := sum.Sub(math.LegacyNewDecFromInt(in)).Abs()
		if diff.GT(math.LegacyNewDecWithPrec(n+int64(anyAgg)+2, 18)) {
			c.Violate("C09", "c09chain", "credits-of-the-block-do-not-sum-to-the-rewards-paid", map[string]interface{}{"credited": sum.String(), "moved_into_escrow": in.String(), "credits_written": n})
		}
	}
	m.shares(c, ctx, h, paid, after)
}

// shares: "each reporter's part is proportional to the reporting power it contributed to the rewarded aggregates", on the
// chain: the rounds aggregated in this block are classed by the cycle-list mark of their reports (all marked / none
// marked / mixed - blocks with a mixed round are skipped); a round whose reports are all marked is a cycle-list or
// deposit aggregate, so it takes part in the time-based reward of the block; every tipped round pays its own tip. What the
// selectors behind each reporter were credited in this block (SelectorTips deltas of the delegators in that reporter's
// stake snapshots, and of the reporter itself) must be the sum of those parts.
func (m *C09ChainMonitor) shares(c *Chain, ctx sdk.Context, h uint64, paid math.Int, after map[string]math.LegacyDec) {
	aggs := c.App.OracleKeeper.GetAggregatedReportsByHeight(ctx, h)
	type round struct {
		agg      oracletypes.Aggregate
		tip      math.Int
		all, any bool
	}
	var rounds []round
	for _, agg := range aggs {
		if len(agg.Reporters) == 0 {
			continue // withdrawal aggregate
		}
		q, ok := m.queries[fmt.Sprintf("%x|%d", agg.QueryId, agg.MetaId)]
		if !ok {
			return
		}
		r := round{agg: agg, tip: q.Amount, all: true}
		nrep := 0
		_ = c.App.OracleKeeper.Reports.Walk(ctx, collections.NewPrefixedTripleRange[[]byte, []byte, uint64](agg.QueryId), func(k collections.Triple[[]byte, []byte, uint64], mr oracletypes.MicroReport) (bool, error) {
			if k.K3() != agg.MetaId {
				return false, nil
			}
			nrep++
			if mr.Cyclelist {
				r.any = true
			} else {
				r.all = false
			}
			return false, nil
		})
		if nrep == 0 {
			return
		}
		rounds = append(rounds, r)
	}
	if len(rounds) == 0 {
		return
	}
	eligible, mixed := 0, 0
	for _, r := range rounds {
		if r.all {
			eligible++
		} else if r.any {
			mixed++
		}
	}
	m.st.Bucket("c09chain|shares|rounds=%d|all-marked=%d|mixed=%d|tbr-paid=%v|tipped=%d", minInt(len(rounds), 3), minInt(eligible, 3), minInt(mixed, 2), paid.IsPositive(), minInt(func() int {
		n := 0
		for _, r := range rounds {
			if r.tip.IsPositive() {
				n++
			}
		}
		return n
	}(), 3))
	if mixed > 0 {
		m.st.Count("c09.shares.skipped-round-with-mixed-marks")
		return
	}
	if eligible > 0 && m.tbr.IsPositive() && !paid.IsPositive() {
		c.Violate("C09", "c09chain", "reward-pool-not-paid-out-although-a-cycle-list-or-deposit-aggregate-was-made", map[string]interface{}{"pool": m.tbr.String(), "aggregates_of_marked_reports": eligible})
		return
	}
	// expected part of every reporter
	want := map[string]math.LegacyDec{}
	add := func(rep string, d math.LegacyDec) {
		if old, ok := want[rep]; ok {
			want[rep] = old.Add(d)
		} else {
			want[rep] = d
		}
	}
	totalEligible := uint64(0)
	powEligible := map[string]uint64{}
	for _, r := range rounds {
		tot := uint64(0)
		for _, x := range r.agg.Reporters {
			tot += x.Power
		}
		if tot == 0 {
			return
		}
		for _, x := range r.agg.Reporters {
			if r.tip.IsPositive() {
				add(x.Reporter, math.LegacyNewDec(int64(x.Power)).Quo(math.LegacyNewDec(int64(tot))).Mul(math.LegacyNewDecFromInt(r.tip)))
			} else {
				add(x.Reporter, math.LegacyZeroDec())
			}
			if r.all {
				powEligible[x.Reporter] += x.Power
				totalEligible += x.Power
			}
		}
	}
	if paid.IsPositive() {
		if totalEligible == 0 {
			return // reported by the clause above (paid without a cycle-list or deposit aggregate)
		}
		for rep, p := range powEligible {
			add(rep, math.LegacyNewDec(int64(p)).Quo(math.LegacyNewDec(int64(totalEligible))).Mul(math.LegacyNewDecFromInt(paid)))
		}
	}
	// the accounts behind every reporter: the reporter and the delegators of its snapshots for these reports
	behind := map[string]map[string]bool{}
	owner := map[string]string{}
	for _, r := range rounds {
		for _, x := range r.agg.Reporters {
			addr, err := sdk.AccAddressFromBech32(x.Reporter)
			if err != nil {
				return
			}
			set := behind[x.Reporter]
			if set == nil {
				set = map[string]bool{string(addr): true}
				behind[x.Reporter] = set
			}
			snap, err := c.App.ReporterKeeper.Report.Get(ctx, collJoinReport(r.agg.QueryId, addr, x.BlockNumber))
			if err != nil {
				m.st.Count("c09.shares.skipped-no-stake-snapshot")
				return
			}
			for _, o := range snap.TokenOrigins {
				set[string(o.DelegatorAddress)] = true
			}
		}
	}
	for rep, set := range behind {
		for d := range set {
			if o, taken := owner[d]; taken && o != rep {
				m.st.Count("c09.shares.skipped-account-behind-two-reporters")
				return
			}
			owner[d] = rep
		}
	}
	m.st.Count("c09.shares.evals")
	tol := math.LegacyNewDecWithPrec(1, 3) // a thousandth of a loya: far above the 10^-18 roundings, far below any share
	for rep, set := range behind {
		got := math.LegacyZeroDec()
		for d := range set {
			a, ok := after[d]
			if !ok {
				continue
			}
			if b, had := m.credits[d]; had {
				a = a.Sub(b)
			}
			got = got.Add(a)
		}
		if w := want[rep]; got.Sub(w).Abs().GT(tol) {
			c.Violate("C09", "c09chain", "reporters-part-of-the-block-rewards-not-proportional-to-its-power-in-the-rewarded-aggregates", map[string]interface{}{"reporter": rep, "credited": got.String(), "want": w.String(), "tbr_paid": paid.String(), "rounds": len(rounds), "all_marked": eligible})
			return
		}
	}
}
