package sim

import (
	"fmt"
	"math/big"
	"sort"

	oracletypes "github.com/tellor-io/layer/x/oracle/types"
	reportertypes "github.com/tellor-io/layer/x/reporter/types"

	"cosmossdk.io/collections"
	"cosmossdk.io/math"

	sdk "github.com/cosmos/cosmos-sdk/types"
)

// ---- C09: each reward is split exactly, non-negatively and in proportion to backing stake ----

type reportRef struct {
	QueryID  []byte
	Reporter sdk.AccAddress
	Height   uint64
	Snap     reportertypes.DelegationsAmounts
}

var refCache = map[*Chain][]reportRef{}

func harvestRefs(l *LabCtx) []reportRef {
	if r, ok := refCache[l.C]; ok {
		return r
	}
	var out []reportRef
	_ = l.C.App.ReporterKeeper.Report.Walk(l.Ctx, nil, func(k collections.Pair[[]byte, collections.Pair[[]byte, uint64]], v reportertypes.DelegationsAmounts) (bool, error) {
		if v.Total.IsPositive() && len(v.TokenOrigins) > 0 {
			out = append(out, reportRef{QueryID: k.K1(), Reporter: sdk.AccAddress(k.K2().K1()), Height: k.K2().K2(), Snap: v})
		}
		return false, nil
	})
	refCache[l.C] = out
	return out
}

func ratFromDec(d math.LegacyDec) *big.Rat {
	return new(big.Rat).SetFrac(d.BigInt(), new(big.Int).Exp(big.NewInt(10), big.NewInt(18), nil))
}

func c09One(l *LabCtx) {
	refs := harvestRefs(l)
	if len(refs) == 0 {
		l.St.Count("c09.no-report-snapshots")
		return
	}
	r := l.R
	a := l.C.App
	byQ := map[string][]reportRef{}
	var qids []string
	for _, x := range refs {
		k := string(x.QueryID)
		if _, ok := byQ[k]; !ok {
			qids = append(qids, k)
		}
		byQ[k] = append(byQ[k], x)
	}
	sort.Strings(qids)
	nAgg := 1 + r.Pick(3)
	var aggs []*oracletypes.Aggregate
	power := map[string]uint64{}       // reporter -> Σ power contributed
	firstRef := map[string]reportRef{} // reporter -> the reference AllocateRewards will use (first seen)
	appear := map[string]int{}
	var total uint64
	for i := 0; i < nAgg; i++ {
		q := byQ[qids[r.Pick(len(qids))]]
		nRep := 1 + r.Pick(4)
		used := map[string]bool{}
		agg := &oracletypes.Aggregate{QueryId: q[0].QueryID}
		for j := 0; j < nRep*3 && len(agg.Reporters) < nRep; j++ {
			x := q[r.Pick(len(q))]
			if used[x.Reporter.String()] {
				continue
			}
			used[x.Reporter.String()] = true
			p := x.Snap.Total.QuoRaw(1_000_000).Uint64()
			if p == 0 {
				continue
			}
			agg.Reporters = append(agg.Reporters, &oracletypes.AggregateReporter{Reporter: x.Reporter.String(), Power: p, BlockNumber: x.Height})
			power[x.Reporter.String()] += p
			total += p
			appear[x.Reporter.String()]++
			if _, ok := firstRef[x.Reporter.String()]; !ok {
				firstRef[x.Reporter.String()] = x
			}
		}
		if len(agg.Reporters) > 0 {
			aggs = append(aggs, agg)
		}
	}
	if len(aggs) == 0 || total == 0 {
		return
	}
	rewards := []int64{1, 2, 3, 7, 10, 999_999, 1_000_000, 123_456_789, 1_000_000_000_000_000}
	R := math.NewInt(rewards[r.Pick(len(rewards))])
	if err := a.BankKeeper.MintCoins(l.Ctx, oracletypes.ModuleName, sdk.NewCoins(sdk.NewCoin(Denom, R))); err != nil {
		l.St.Count("c09.mint-failed")
		return
	}
	before, _ := selectorTips(l.C, l.Ctx)
	err := a.OracleKeeper.AllocateRewards(l.Ctx, aggs, R, oracletypes.ModuleName)
	l.St.Count("c09.calls")
	if err != nil {
		l.St.Count("c09.call-error:" + NormalizeErr(err.Error()))
		return
	}
	after, _ := selectorTips(l.C, l.Ctx)
	delta := map[string]*big.Rat{}
	sum := new(big.Rat)
	credits := 0
	negative := false
	for k, v := range after {
		old, ok := before[k]
		if !ok {
			old = math.LegacyZeroDec()
		}
		d := ratFromDec(v.Sub(old))
		if d.Sign() != 0 {
			delta[k] = d
			sum.Add(sum, d)
			credits++
			if d.Sign() < 0 {
				negative = true
			}
		}
	}
	// classes for the bucket
	multi := false
	for _, n := range appear {
		if n > 1 {
			multi = true
		}
	}
	maxOrigins, maxSelfOrigins, maxSel := 0, 0, 0
	commClass := "0"
	overlap := false
	owner := map[string]string{}
	for rep, ref := range firstRef {
		meta, err := a.ReporterKeeper.Reporters.Get(l.Ctx, ref.Reporter)
		if err == nil {
			switch {
			case meta.CommissionRate.IsNegative():
				commClass = "<0"
			case meta.CommissionRate.GT(math.LegacyOneDec()):
				commClass = ">1"
			case meta.CommissionRate.IsPositive() && commClass == "0":
				commClass = "(0,1]"
			}
		}
		self := 0
		sels := map[string]bool{}
		for _, o := range ref.Snap.TokenOrigins {
			sels[string(o.DelegatorAddress)] = true
			if string(o.DelegatorAddress) == string(ref.Reporter) {
				self++
			}
			if prev, ok := owner[string(o.DelegatorAddress)]; ok && prev != rep {
				overlap = true
			}
			owner[string(o.DelegatorAddress)] = rep
		}
		if len(ref.Snap.TokenOrigins) > maxOrigins {
			maxOrigins = len(ref.Snap.TokenOrigins)
		}
		if self > maxSelfOrigins {
			maxSelfOrigins = self
		}
		if len(sels) > maxSel {
			maxSel = len(sels)
		}
	}
	// how many of the paid reports are backed by stake with a validator whose shares are not worth one token each
	offPar := 0
	for _, ref := range firstRef {
		for _, o := range ref.Snap.TokenOrigins {
			if val, err := a.StakingKeeper.GetValidator(l.Ctx, sdk.ValAddress(o.ValidatorAddress)); err == nil && !val.DelegatorShares.Equal(math.LegacyNewDecFromInt(val.Tokens)) {
				offPar++
			}
		}
	}
	l.St.Bucket("c09|origins-on-slashed-validators=%d", minInt(offPar, 3))
	rClass := "small"
	if R.GT(math.NewInt(1000)) {
		rClass = "mid"
	}
	if R.GT(math.NewInt(1_000_000_000)) {
		rClass = "huge"
	}
	l.St.Bucket("c09|reporters=%d|aggs=%d|multi=%v|comm=%s|selectors=%d|selfOrigins=%d|R=%s", minInt(len(firstRef), 4), len(aggs), multi, commClass, minInt(maxSel, 4), minInt(maxSelfOrigins, 3), rClass)
	detail := func() map[string]interface{} {
		d := map[string]interface{}{"R": R.String(), "sum_credits": sum.FloatString(18), "reporters": len(firstRef), "aggregates": len(aggs), "comm": commClass, "self_origins": maxSelfOrigins, "multi_aggregate_reporter": multi}
		var ds []string
		for k, v := range delta {
			ds = append(ds, fmt.Sprintf("%s:%s", sdk.AccAddress(k).String()[6:14], v.FloatString(6)))
		}
		sort.Strings(ds)
		d["credits"] = ds
		return d
	}
	sig := fmt.Sprintf("comm=%s:selfOrigins=%d:multi=%v", commClass, minInt(maxSelfOrigins, 2), multi)
	// 1. exactness: Σ credits == R to within 1e-18 per credit
	tol := new(big.Rat).SetFrac(big.NewInt(int64(credits+len(firstRef)+2)), new(big.Int).Exp(big.NewInt(10), big.NewInt(18), nil))
	diff := new(big.Rat).Sub(sum, new(big.Rat).SetInt(R.BigInt()))
	if new(big.Rat).Abs(diff).Cmp(tol) > 0 {
		l.Violate("C09", "c09", "credits-do-not-sum-to-reward:"+sig, detail())
	}
	// 2. non-negativity
	if negative {
		l.Violate("C09", "c09", "negative-credit:"+sig, detail())
	}
	if overlap {
		l.St.Count("c09.overlapping-selectors-skipped")
		return
	}
	// 3. each reporter's part is proportional to the power it contributed
	// proportionality cannot be exact in 18-decimal fixed point: a quotient rounded at 1e-18 is multiplied by R
	looseN := new(big.Int).Mul(new(big.Int).Add(R.BigInt(), big.NewInt(1)), big.NewInt(int64(4*(credits+2))))
	loose := new(big.Rat).SetFrac(looseN, new(big.Int).Exp(big.NewInt(10), big.NewInt(18), nil))
	for rep, ref := range firstRef {
		part := new(big.Rat)
		for _, o := range ref.Snap.TokenOrigins {
			if d, ok := delta[string(o.DelegatorAddress)]; ok && owner[string(o.DelegatorAddress)] == rep {
				part.Add(part, d)
				owner[string(o.DelegatorAddress)] = "" // count a selector once
			}
		}
		// the commission is credited to the reporter's own address even when none of its own stake backed the report
		// (e.g. its own delegation sits with a validator that has left the bonded set)
		if o, ok := owner[string(ref.Reporter)]; !ok || o == rep {
			if d, ok := delta[string(ref.Reporter)]; ok {
				part.Add(part, d)
				owner[string(ref.Reporter)] = ""
			}
		}
		want := new(big.Rat).Mul(new(big.Rat).SetInt(R.BigInt()), new(big.Rat).SetFrac(new(big.Int).SetUint64(power[rep]), new(big.Int).SetUint64(total)))
		if new(big.Rat).Abs(new(big.Rat).Sub(part, want)).Cmp(loose) > 0 {
			d := detail()
			d["reporter"] = rep
			d["got_part"] = part.FloatString(18)
			d["want_part"] = want.FloatString(18)
			l.Violate("C09", "c09", "reporter-part-not-proportional-to-power:"+sig, d)
			return
		}
		// 4./5. within the reporter: commission once to the reporter, remainder in proportion to the stake
		// each selector had in the snapshot taken when the report was made (checked when the reporter appears once)
		if appear[rep] != 1 {
			continue
		}
		meta, err := a.ReporterKeeper.Reporters.Get(l.Ctx, ref.Reporter)
		if err != nil {
			continue
		}
		rate := ratFromDec(meta.CommissionRate)
		comm := new(big.Rat).Mul(want, rate)
		net := new(big.Rat).Sub(want, comm)
		stake := map[string]*big.Int{}
		for _, o := range ref.Snap.TokenOrigins {
			k := string(o.DelegatorAddress)
			if stake[k] == nil {
				stake[k] = new(big.Int)
			}
			stake[k].Add(stake[k], o.Amount.BigInt())
		}
		l.St.Count("c09.selector-split.evals")
		for sel, amt := range stake {
			exp := new(big.Rat).Mul(net, new(big.Rat).SetFrac(amt, ref.Snap.Total.BigInt()))
			if sel == string(ref.Reporter) {
				exp.Add(exp, comm)
			}
			got := delta[sel]
			if got == nil {
				got = new(big.Rat)
			}
			if new(big.Rat).Abs(new(big.Rat).Sub(got, exp)).Cmp(loose) > 0 {
				d := detail()
				d["reporter"] = rep
				d["selector"] = sdk.AccAddress(sel).String()
				d["got"] = got.FloatString(18)
				d["want"] = exp.FloatString(18)
				d["is_reporter"] = sel == string(ref.Reporter)
				l.Violate("C09", "c09", "selector-share-not-commission-plus-pro-rata:"+sig, d)
				return
			}
		}
		if _, has := stake[string(ref.Reporter)]; !has && comm.Sign() > 0 {
			// reporter without own bonded origin still earns its commission
			got := delta[string(ref.Reporter)]
			if got == nil {
				got = new(big.Rat)
			}
			if new(big.Rat).Abs(new(big.Rat).Sub(got, comm)).Cmp(loose) > 0 {
				d := detail()
				d["reporter"] = rep
				d["got"] = got.FloatString(18)
				d["want"] = comm.FloatString(18)
				l.Violate("C09", "c09", "commission-not-credited-once:"+sig, d)
				return
			}
		}
	}
}

var c09Populate = Profile{Name: "c09-populate", MinTx: 4, MaxTx: 9, Hostile: 0.1, GapBig: 0.02, Equivocate: 0.05, Downtime: 0.08, Fragments: []string{"twinReportsStakeChange"},
	W: map[string]float64{"submit": 30, "tip": 6, "createReporter": 8, "selectReporter": 9, "delegate": 12, "redelegate": 2, "switchReporter": 2, "proposeDispute": 0.3, "vote": 0.3,
		"unjailVal": 6, "withdrawTokens": 0.1, "claimDeposits": 0, "requestAttest": 0.1, "privileged": 0, "govProposal": 0, "govVote": 0, "registerSpec": 0.2}}

func init() {
	RegisterLab(&LabDef{
		ID:              "C09",
		PopulateProfile: &c09Populate,
		PopulateBlocks:  160,
		Inputs:          map[string]int{"quick": 1600, "thorough": 12000},
		Batches:         map[string]int{"quick": 8, "thorough": 16},
		One:             c09One,
	})
}
