package sim

import (
	"bufio"
	"crypto/sha256"
	"encoding/base64"
	"encoding/hex"
	"encoding/json"
	"fmt"
	"os"
	"os/exec"
	"sort"
	"strings"
	"time"

	abci "github.com/cometbft/cometbft/abci/types"
	dbm "github.com/cosmos/cosmos-db"
	"github.com/tellor-io/layer/app"
	oracletypes "github.com/tellor-io/layer/x/oracle/types"

	"cosmossdk.io/collections"
	"cosmossdk.io/collections/indexes"
	storetypes "cosmossdk.io/store/types"

	sdk "github.com/cosmos/cosmos-sdk/types"
)

// Engine for C01: a leader generates a hostile history and records every FinalizeBlock request; follower
// processes (fresh runtime => fresh map seeds; different node-local configuration) replay the requests blindly
// and must reproduce, at every height, the AppHash, the digest of the block result (tx results, events,
// validator updates) and the digest of every module store.

type HeightDigest struct {
	Height  int64             `json:"h"`
	AppHash string            `json:"app"`
	Result  string            `json:"res"`
	Stores  map[string]string `json:"stores"`
}

var storeNames = []string{"acc", "bank", "staking", "mint", "distribution", "slashing", "gov", "upgrade", "evidence", "feegrant", "authz", "group",
	"oracle", "registry", "dispute", "bridge", "reporter", "globalfee", "consensus"}

func storeDigests(a *app.App) map[string]string {
	out := map[string]string{}
	for _, n := range storeNames {
		key := a.GetKey(n)
		if key == nil {
			continue
		}
		st := a.CommitMultiStore().GetKVStore(key)
		h := sha256.New()
		it := st.Iterator(nil, nil)
		n2 := 0
		for ; it.Valid(); it.Next() {
			k, v := it.Key(), it.Value()
			h.Write([]byte{byte(len(k) >> 8), byte(len(k))})
			h.Write(k)
			h.Write(v)
			n2++
		}
		it.Close()
		out[n] = fmt.Sprintf("%d:%s", n2, hex.EncodeToString(h.Sum(nil))[:16])
	}
	return out
}

var _ storetypes.KVStore

func digestOf(a *app.App, h int64, res *abci.ResponseFinalizeBlock) HeightDigest {
	return HeightDigest{Height: h, AppHash: hex.EncodeToString(res.AppHash), Result: ResultDigest(res), Stores: storeDigests(a)}
}

// C01Sites counts the order-sensitive sites a history exercised (feature buckets of C01).
type C01Sites struct {
	BaseMonitor
	st *Stats
}

func (m *C01Sites) Name() string { return "c01sites" }

func (m *C01Sites) EndBlockEntry(c *Chain, ctx sdk.Context) {
	h := uint64(ctx.BlockHeight())
	k := c.App.OracleKeeper
	expiring := 0
	_ = k.Query.Walk(ctx, nil, func(key collections.Pair[[]byte, uint64], q oracletypes.QueryMeta) (bool, error) {
		if !q.HasRevealedReports || q.Expiration > h {
			return false, nil
		}
		expiring++
		iter, err := k.Reports.Indexes.Id.MatchExact(ctx, q.Id)
		if err != nil {
			return false, nil
		}
		reps, err := indexes.CollectValues(ctx, k.Reports, iter)
		if err != nil || len(reps) == 0 {
			return false, nil
		}
		if len(reps) >= 2 {
			m.st.Bucket("c01|multi-reporter-reward|n=%d|tip=%v|cyclelist=%v", minInt(len(reps), 5), q.Amount.IsPositive(), reps[0].Cyclelist)
		}
		if reps[0].AggregateMethod != "weighted-median" {
			w := map[string]uint64{}
			for _, r := range reps {
				w[r.Value] += r.Power
			}
			var max uint64
			ties := 0
			for _, x := range w {
				if x > max {
					max, ties = x, 1
				} else if x == max {
					ties++
				}
			}
			if ties >= 2 {
				m.st.Bucket("c01|mode-tie|arity=%d|values=%d", minInt(ties, 4), minInt(len(w), 4))
				m.st.Count("c01.mode-tie-rounds")
			} else {
				m.st.Bucket("c01|mode-no-tie|values=%d", minInt(len(w), 4))
			}
		} else if len(reps) >= 2 {
			m.st.Bucket("c01|median|n=%d", minInt(len(reps), 5))
		}
		return false, nil
	})
	if expiring >= 2 {
		m.st.Bucket("c01|several-rounds-aggregated-in-one-block|n=%d", minInt(expiring, 4))
	}
}

func (m *C01Sites) AfterCommit(c *Chain, ctx sdk.Context, br *BlockResult) {
	ex := 0
	for _, e := range br.Res.Events {
		if e.Type == "dispute_executed" {
			ex++
		}
	}
	if ex >= 1 {
		m.st.Bucket("c01|disputes-executed-in-block|n=%d", minInt(ex, 4))
	}
	if len(br.Res.ValidatorUpdates) > 0 {
		m.st.Bucket("c01|validator-set-update|n=%d", minInt(len(br.Res.ValidatorUpdates), 4))
	}
}

type detRecorder struct {
	w *bufio.Writer
}

func (d *detRecorder) line(kind string, bz []byte) {
	fmt.Fprintf(d.w, "%s %s\n", kind, base64.StdEncoding.EncodeToString(bz))
}

// Variant describes a follower's node-local configuration.
type Variant struct {
	Name string
	Env  []string
	Args []string
	Race bool
	Skew bool // run by the vh-skew binary, whose time.Now() is shifted by VERIF_CLOCK_SKEW_SEC (see mkskew.py)
}

// SkewSelf is the path of the vh-skew binary ("" when it was not built).
var SkewSelf string

func Variants(tier string) []Variant {
	v := []Variant{
		{Name: "same-config-fresh-process"},
		// (telemetry switched on as well since seeded change C01-h: another entry of the node's own app.toml)
		{Name: "gomaxprocs1-tz-mingas-iavlcache-telemetry", Env: []string{"GOMAXPROCS=1", "TZ=Pacific/Kiritimati"}, Args: []string{"-mingas", "0.5loya", "-iavl", "1", "-telemetry"}},
		{Name: "goleveldb-pruning-everything", Env: []string{"GOMAXPROCS=16", "TZ=America/Anchorage"}, Args: []string{"-db", "goleveldb", "-pruning", "everything"}},
	}
	// "never depends on wall-clock time": replicas whose machine clock is ten years behind / ahead of the leader's (the
	// block times in the recorded requests are the same, of course)
	// what a node did besides executing blocks must not matter: one replica simulates every transaction of a block (and
	// the recorded transactions that never enter a block) before it executes the block, one is shut down and started
	// again from its database every 37 blocks (everything held in memory is gone)
	v = append(v, Variant{Name: "serves-simulations", Args: []string{"-simulate"}},
		Variant{Name: "restarted-every-37-blocks", Env: []string{"GOMAXPROCS=8"}, Args: []string{"-db", "goleveldb", "-restart", "37"}})
	v = append(v, Variant{Name: "wall-clock-ten-years-behind", Skew: true, Env: []string{"VERIF_CLOCK_SKEW_SEC=-315360000", "TZ=Asia/Kathmandu"}},
		Variant{Name: "wall-clock-ten-years-ahead", Skew: true, Env: []string{"VERIF_CLOCK_SKEW_SEC=315360000"}, Args: []string{"-iavl", "1"}})
	if tier == "thorough" {
		v = append(v, Variant{Name: "second-fresh-process-iavl-big", Env: []string{"GOMAXPROCS=4"}, Args: []string{"-iavl", "1000000", "-pruning", "nothing"}},
			Variant{Name: "race-build", Race: true})
	}
	return v
}

// RunDetCase: leader + followers for one history.
func RunDetCase(spec CaseSpec, self, raceSelf, dir string) (res CaseResult) {
	t0 := time.Now()
	res.Spec = spec
	def := Props["C01"]
	caseSeed := spec.Seed*1_000_003 + int64(spec.Case)
	r := NewRng(caseSeed, "case:C01")
	cfg := DefaultWorldCfg(caseSeed)
	def.World(&cfg, r)
	w := NewWorld(cfg)
	st := NewStats()
	prof := def.Profile(spec.Tier, r)
	res.Spec.Profile = prof.Name
	c := NewChain(w, AppOpts{}, &C01Sites{st: st})
	defer c.Close()
	g := NewGen(c, caseSeed, prof)
	c.Monitors = append(c.Monitors, g)
	for _, f := range prof.Fragments {
		g.QueueFragment(f)
	}
	file := fmt.Sprintf("%s/c01-%d-%d.req", dir, spec.Seed, spec.Case)
	f, err := os.Create(file)
	if err != nil {
		res.Inconclusive = err.Error()
		return
	}
	rec := &detRecorder{w: bufio.NewWriter(f)}
	initReq := w.InitChainRequest(c.App) // same genesis the chain was initialised with (pure function of the world)
	ib, _ := initReq.Marshal()
	rec.line("init", ib)
	var leader []HeightDigest
	defer func() {
		if rc := recover(); rc != nil {
			res.Inconclusive = fmt.Sprintf("harness panic: %v", rc)
		}
		res.Violations = c.Violations
		res.Buckets = st.BucketList()
		res.Counters = st.Counters
		res.MsgOk, res.MsgRej = g.Ok, g.Rej
		res.Samples = g.Samples
		res.WallS = time.Since(t0).Seconds()
		os.Remove(file)
	}()
	for i := 0; i < spec.Blocks; i++ {
		plan := g.Plan()
		// transactions nobody puts into a block: replicas that serve simulations simulate them before this block
		for _, ph := range g.Phantoms {
			rec.line("sim", ph)
			st.Count("c01.phantom-transactions-recorded")
		}
		g.Phantoms = nil
		c.Rec = nil
		br := c.NextBlockRecorded(plan, func(req *abci.RequestFinalizeBlock) {
			bz, _ := req.Marshal()
			rec.line("fin", bz)
		})
		if br.Err != nil {
			res.Dead = true
			res.Death = NormalizeErr(br.Err.Error())
			break
		}
		res.BlocksRun++
		leader = append(leader, digestOf(c.App, br.Height, br.Res))
	}
	rec.w.Flush()
	f.Close()
	if len(leader) == 0 {
		res.Inconclusive = "leader produced no block"
		return
	}
	// followers
	for _, v := range Variants(spec.Tier) {
		bin := self
		if v.Race {
			bin = raceSelf
			if bin == "" {
				continue
			}
		}
		if v.Skew {
			bin = SkewSelf
			if bin == "" {
				res.Inconclusive = "the replica with a shifted wall clock (vh-skew) was not built"
				return
			}
		}
		args := append([]string{"follow", "-file", file}, v.Args...)
		cmd := exec.Command(bin, args...)
		cmd.Env = append(os.Environ(), v.Env...)
		out, err := cmd.Output()
		st.Count("c01.replica-executions")
		if err != nil {
			res.Inconclusive = fmt.Sprintf("follower %s failed: %v", v.Name, err)
			return
		}
		var got []HeightDigest
		if v.Skew {
			// harness sanity only (never part of the verdict on the application): the replica's clock was years away
			var theirs int64
			for _, line := range strings.Split(string(out), "\n") {
				if strings.HasPrefix(line, "WALLCLOCK ") {
					fmt.Sscanf(line[10:], "%d", &theirs)
				}
			}
			if d := time.Now().Unix() - theirs; theirs == 0 || (d < 9*365*86400 && d > -9*365*86400) {
				res.Inconclusive = "the wall clock of replica " + v.Name + " was not shifted"
				return
			}
		}
		for _, line := range strings.Split(string(out), "\n") {
			if !strings.HasPrefix(line, "DIGEST ") {
				continue
			}
			var d HeightDigest
			if json.Unmarshal([]byte(line[7:]), &d) == nil {
				got = append(got, d)
			}
		}
		st.Bucket("c01|replica|%s", v.Name)
		if v.Skew {
			st.Count("c01.replica-executions-under-a-shifted-wall-clock")
		}
		if len(got) != len(leader) {
			c.Violate("C01", "replay", "follower-stopped-early:"+v.Name, map[string]interface{}{"got": len(got), "want": len(leader)})
			continue
		}
		for i := range leader {
			st.Count("c01.height-comparisons")
			a, b := leader[i], got[i]
			if a.AppHash == b.AppHash && a.Result == b.Result {
				same := true
				for k, x := range a.Stores {
					if b.Stores[k] != x {
						same = false
					}
				}
				if same {
					continue
				}
			}
			var diff []string
			for k, x := range a.Stores {
				if b.Stores[k] != x {
					diff = append(diff, k)
				}
			}
			sort.Strings(diff)
			what := "stores"
			if a.Result != b.Result {
				what = "block-result"
			}
			c.Violate("C01", "replay", fmt.Sprintf("replica-diverges:%s:%s", what, strings.Join(diff, "+")), map[string]interface{}{"height": a.Height, "variant": v.Name, "leader_app_hash": a.AppHash, "follower_app_hash": b.AppHash, "stores": diff})
			break
		}
	}
	return
}

// Follow replays a recorded request file and prints one DIGEST line per height.
func Follow(file string, o AppOpts, dbBackend string, simulate bool, restartEvery int) error {
	f, err := os.Open(file)
	if err != nil {
		return err
	}
	defer f.Close()
	ldbDir := ""
	if dbBackend == "goleveldb" {
		dir, err := os.MkdirTemp("", "vh-ldb-")
		if err != nil {
			return err
		}
		defer os.RemoveAll(dir)
		ldbDir = dir
		db, err := dbm.NewGoLevelDB("application", dir, nil)
		if err != nil {
			return err
		}
		o.DB = db
	}
	if o.Home == "" {
		home, err := os.MkdirTemp("", "vh-home-")
		if err != nil {
			return err
		}
		defer os.RemoveAll(home)
		o.Home = home
	}
	var leak *leakDB
	if o.DB == nil {
		leak = newLeakDB(dbm.NewMemDB())
		o.DB = leak
	}
	a, cleanup := NewApp(o, nil)
	defer cleanup()
	sc := bufio.NewScanner(f)
	sc.Buffer(make([]byte, 1<<20), 1<<28)
	for sc.Scan() {
		parts := strings.SplitN(sc.Text(), " ", 2)
		if len(parts) != 2 {
			continue
		}
		bz, err := base64.StdEncoding.DecodeString(parts[1])
		if err != nil {
			return err
		}
		switch parts[0] {
		case "init":
			var req abci.RequestInitChain
			if err := req.Unmarshal(bz); err != nil {
				return err
			}
			if _, err := a.InitChain(&req); err != nil {
				return err
			}
		case "sim":
			if simulate {
				_, _, _ = a.Simulate(bz)
			}
		case "fin":
			var req abci.RequestFinalizeBlock
			if err := req.Unmarshal(bz); err != nil {
				return err
			}
			if simulate {
				for _, tx := range req.Txs {
					func() {
						defer func() { _ = recover() }() // the injected vote-extension transaction is not a signed transaction
						_, _, _ = a.Simulate(tx)
					}()
				}
			}
			if restartEvery > 0 && ldbDir != "" && req.Height > 1 && req.Height%int64(restartEvery) == 0 {
				// shut the node down and start it again from its database
				if err := a.Close(); err != nil {
					return fmt.Errorf("close before restart: %w", err)
				}
				db, err := dbm.NewGoLevelDB("application", ldbDir, nil)
				if err != nil {
					return err
				}
				o.DB = db
				a, _ = NewApp(o, nil)
				fmt.Printf("RESTARTED %d\n", req.Height)
			}
			res, err := a.FinalizeBlock(&req)
			if err != nil {
				return err
			}
			if leak != nil {
				leak.CloseLeaked() // see leakdb.go: an unclosed iterator would block the in-memory database in Commit
			}
			if _, err := a.Commit(); err != nil {
				return err
			}
			d, _ := json.Marshal(digestOf(a, req.Height, res))
			fmt.Printf("DIGEST %s\n", d)
		}
	}
	return sc.Err()
}
