package sim

import (
	"bytes"
	"cosmossdk.io/collections"
	"fmt"
	"strings"

	bridgetypes "github.com/tellor-io/layer/x/bridge/types"
	disputetypes "github.com/tellor-io/layer/x/dispute/types"
	minttypes "github.com/tellor-io/layer/x/mint/types"
	oracletypes "github.com/tellor-io/layer/x/oracle/types"
	registrytypes "github.com/tellor-io/layer/x/registry/types"
	reportertypes "github.com/tellor-io/layer/x/reporter/types"

	"cosmossdk.io/math"

	sdk "github.com/cosmos/cosmos-sdk/types"
	authsigning "github.com/cosmos/cosmos-sdk/x/auth/signing"
	stakingtypes "github.com/cosmos/cosmos-sdk/x/staking/types"
)

// C19Monitor: privileged changes need governance; messages touch only the signer's assets (DESIGN.md §4 C19).
type holdings struct {
	bal    map[string]math.Int
	shares map[string]math.LegacyDec // delegator|validator
	staked map[string]math.Int       // delegator -> tokens in delegations
	ubd    map[string]math.Int       // delegator -> unbonding balance
	tips   map[string]math.LegacyDec // selector -> reward credit
	sel    map[string]string         // selector -> reporter
	refund map[string]math.Int       // "dispute id|payer" -> recorded dispute-fee payment (from balance) still awaiting its refund
	disp   math.Int                  // balance of the dispute module account
	recFee math.Int                  // fees recorded as paid, over all disputes (the latest round's cumulative FeeTotal per dispute hash)
	recEsc math.Int                  // stake recorded as escrowed, over all disputes
}

type privState struct {
	oracleParams   string
	reporterParams string
	team           string
	cyclelist      string
	specs          map[string]string
	mintInit       bool
	snapLimit      uint64
}

type C19Monitor struct {
	BaseMonitor
	st   *Stats
	h    holdings
	p    privState
	repo map[string]reportertypes.OracleReporter
	// selectors of the reporter at the moment a report was accepted, per (query id | reporter | height)
	backers map[string][]string
}

func NewC19Monitor(st *Stats) *C19Monitor { return &C19Monitor{st: st} }
func (m *C19Monitor) Name() string        { return "c19" }

func takeHoldings(c *Chain, ctx sdk.Context) holdings {
	h := holdings{bal: balances(c, ctx), shares: map[string]math.LegacyDec{}, staked: map[string]math.Int{}, ubd: map[string]math.Int{}, sel: map[string]string{}}
	vals := map[string]stakingtypes.Validator{}
	all, _ := c.App.StakingKeeper.GetAllValidators(ctx)
	for _, v := range all {
		vals[v.OperatorAddress] = v
	}
	_ = c.App.StakingKeeper.IterateAllDelegations(ctx, func(d stakingtypes.Delegation) bool {
		h.shares[d.DelegatorAddress+"|"+d.ValidatorAddress] = d.Shares
		if v, ok := vals[d.ValidatorAddress]; ok {
			addTo(h.staked, d.DelegatorAddress, v.TokensFromShares(d.Shares).TruncateInt())
		}
		return false
	})
	_ = c.App.StakingKeeper.IterateUnbondingDelegations(ctx, func(_ int64, u stakingtypes.UnbondingDelegation) bool {
		for _, e := range u.Entries {
			addTo(h.ubd, u.DelegatorAddress, e.Balance)
		}
		return false
	})
	h.tips, _ = selectorTips(c, ctx)
	h.refund = map[string]math.Int{}
	_ = c.App.DisputeKeeper.DisputeFeePayer.Walk(ctx, nil, func(k collections.Pair[uint64, []byte], p disputetypes.PayerInfo) (bool, error) {
		// a fee paid from stake is returned to the stake it was taken from (the payer's selectors), not to the payer
		if !p.FromBond {
			h.refund[fmt.Sprintf("%d|%s", k.K1(), sdk.AccAddress(k.K2()).String())] = p.Amount
		}
		return false, nil
	})
	h.disp = modBal(c, ctx, disputetypes.ModuleName)
	perHash := map[string]math.Int{}
	_ = c.App.DisputeKeeper.Disputes.Walk(ctx, nil, func(_ uint64, d disputetypes.Dispute) (bool, error) {
		if old, ok := perHash[string(d.HashId)]; !ok || d.FeeTotal.GT(old) {
			perHash[string(d.HashId)] = d.FeeTotal
		}
		return false, nil
	})
	h.recFee, h.recEsc = math.ZeroInt(), math.ZeroInt()
	for _, f := range perHash {
		h.recFee = h.recFee.Add(f)
	}
	_ = c.App.ReporterKeeper.DisputedDelegationAmounts.Walk(ctx, nil, func(_ []byte, d reportertypes.DelegationsAmounts) (bool, error) {
		if !d.Total.IsNil() {
			h.recEsc = h.recEsc.Add(d.Total)
		}
		return false, nil
	})
	_ = c.App.ReporterKeeper.Selectors.Walk(ctx, nil, func(k []byte, s reportertypes.Selection) (bool, error) {
		h.sel[sdk.AccAddress(k).String()] = sdk.AccAddress(s.Reporter).String()
		return false, nil
	})
	return h
}

func takePriv(c *Chain, ctx sdk.Context) privState {
	p := privState{specs: map[string]string{}}
	if x, err := c.App.OracleKeeper.Params.Get(ctx); err == nil {
		p.oracleParams = x.String()
	}
	if x, err := c.App.ReporterKeeper.Params.Get(ctx); err == nil {
		p.reporterParams = x.String()
	}
	if x, err := c.App.DisputeKeeper.Params.Get(ctx); err == nil {
		p.team = sdk.AccAddress(x.TeamAddress).String()
	}
	if l, err := c.App.OracleKeeper.GetCyclelist(ctx); err == nil {
		p.cyclelist = fmt.Sprintf("%x", bytes.Join(l, []byte("|")))
	}
	_ = c.App.RegistryKeeper.SpecRegistry.Walk(ctx, nil, func(k string, v registrytypes.DataSpec) (bool, error) {
		p.specs[k] = v.String()
		return false, nil
	})
	if mn, err := c.App.MintKeeper.Minter.Get(ctx); err == nil {
		p.mintInit = mn.Initialized
	}
	if s, err := c.App.BridgeKeeper.SnapshotLimit.Get(ctx); err == nil {
		p.snapLimit = s.Limit
	}
	return p
}

func (m *C19Monitor) refresh(c *Chain, ctx sdk.Context) {
	m.h = takeHoldings(c, ctx)
	m.p = takePriv(c, ctx)
	m.repo = map[string]reportertypes.OracleReporter{}
	_ = c.App.ReporterKeeper.Reporters.Walk(ctx, nil, func(k []byte, r reportertypes.OracleReporter) (bool, error) {
		m.repo[sdk.AccAddress(k).String()] = r
		return false, nil
	})
}

func (m *C19Monitor) BeforeBlock(c *Chain, ctx sdk.Context) {
	if c.Height > 0 {
		m.refresh(c, ctx)
	}
}
func (m *C19Monitor) BeforeTx(c *Chain, ctx sdk.Context, tx sdk.Tx) { m.refresh(c, ctx) }

func privileged(msg sdk.Msg) bool {
	switch msg.(type) {
	case *oracletypes.MsgUpdateParams, *oracletypes.MsgUpdateCyclelist, *registrytypes.MsgUpdateDataSpec, *reportertypes.MsgUpdateParams, *minttypes.MsgInit, *bridgetypes.MsgUpdateSnapshotLimit:
		return true
	}
	return false
}

func (m *C19Monitor) AfterTx(c *Chain, ctx sdk.Context, tx sdk.Tx, ok bool) {
	if !ok || m.h.bal == nil {
		return
	}
	gov := govAddr()
	signers := map[string]bool{}
	if st, ok := tx.(authsigning.SigVerifiableTx); ok {
		ss, _ := st.GetSigners()
		for _, s := range ss {
			signers[sdk.AccAddress(s).String()] = true
		}
	}
	after := takeHoldings(c, ctx)
	for _, msg := range tx.GetMsgs() {
		if sv, is := msg.(*oracletypes.MsgSubmitValue); is {
			var own []string
			for sel, rep := range after.sel {
				if rep == sv.Creator {
					own = append(own, sel)
				}
			}
			if m.backers == nil {
				m.backers = map[string][]string{}
			}
			m.backers[fmt.Sprintf("%x|%s|%d", QueryID(sv.QueryData), sv.Creator, ctx.BlockHeight())] = own
		}
	}
	priv := takePriv(c, ctx)
	name, _ := layerMsg(tx)
	m.st.Count("c19.tx.evals")
	// ---- privileged messages ----
	for _, msg := range tx.GetMsgs() {
		if privileged(msg) && !signers[gov] {
			c.Violate("C19", "c19", "privileged-message-accepted-from-non-governance-signer:"+sdk.MsgTypeURL(msg), nil)
		}
		if x, ok := msg.(*disputetypes.MsgUpdateTeam); ok {
			m.st.Bucket("c19|update-team|signed-by-team=%v", signers[m.p.team])
			if !signers[m.p.team] || x.CurrentTeamAddress != m.p.team {
				c.Violate("C19", "c19", "team-address-changed-by-someone-else", map[string]interface{}{"team": m.p.team})
			}
		}
		if x, ok := msg.(*registrytypes.MsgRegisterSpec); ok {
			key := strings.ToLower(x.QueryType)
			_, existed := m.p.specs[key]
			m.st.Bucket("c19|register-spec|existed=%v|case-variant=%v", existed, key != x.QueryType)
			if existed {
				c.Violate("C19", "c19", "register-spec-accepted-for-existing-type", map[string]interface{}{"type": x.QueryType})
			}
		}
	}
	// privileged state never changes inside a transaction (governance executes in the end blocker)
	if priv.oracleParams != m.p.oracleParams || priv.reporterParams != m.p.reporterParams || priv.cyclelist != m.p.cyclelist || priv.mintInit != m.p.mintInit || priv.snapLimit != m.p.snapLimit {
		c.Violate("C19", "c19", "privileged-state-changed-by-transaction:"+name, nil)
	}
	if priv.team != m.p.team {
		isTeamMsg := false
		for _, msg := range tx.GetMsgs() {
			if _, ok := msg.(*disputetypes.MsgUpdateTeam); ok {
				isTeamMsg = true
			}
		}
		if !isTeamMsg || !signers[m.p.team] {
			c.Violate("C19", "c19", "team-address-changed-without-team-signature:"+name, nil)
		}
	}
	for k, v := range m.p.specs {
		if nv, ok := priv.specs[k]; !ok || nv != v {
			c.Violate("C19", "c19", "registered-data-spec-replaced-by-transaction:"+name, map[string]interface{}{"type": k})
		}
	}
	// ---- exceptions of this transaction ----
	allowed := map[string]string{}
	for _, msg := range tx.GetMsgs() {
		switch x := msg.(type) {
		case *disputetypes.MsgProposeDispute, *disputetypes.MsgAddFeeToDispute:
			var d disputetypes.Dispute
			fromBond := false
			if pd, ok := x.(*disputetypes.MsgProposeDispute); ok {
				fromBond = pd.PayFromBond
				if pd.Report != nil {
					d.InitialEvidence = *pd.Report
				}
			} else {
				af := x.(*disputetypes.MsgAddFeeToDispute)
				fromBond = af.PayFromBond
				if dd, err := c.App.DisputeKeeper.Disputes.Get(ctx, af.DisputeId); err == nil {
					d = dd
				}
			}
			// (a) a FUNDED dispute's consequences for the disputed reporter and the backers of that report: after this
			// transaction a dispute about that report exists whose whole fee (the slash amount) has been paid
			ev := d.InitialEvidence
			funded := false
			_ = c.App.DisputeKeeper.Disputes.Walk(ctx, nil, func(_ uint64, dd disputetypes.Dispute) (bool, error) {
				e := dd.InitialEvidence
				if e.Reporter == ev.Reporter && string(e.QueryId) == string(ev.QueryId) && e.BlockNumber == ev.BlockNumber &&
					dd.SlashAmount.IsPositive() && dd.FeeTotal.GTE(dd.SlashAmount) {
					funded = true
					return true, nil
				}
				return false, nil
			})
			// ... and paid means paid: what this transaction recorded as fee and as escrowed stake has arrived in the dispute
			// account (up to the known one-unit truncations per selector / origin, findings F10 and F31)
			if funded {
				recorded := after.recFee.Sub(m.h.recFee).Add(after.recEsc.Sub(m.h.recEsc))
				arrived := after.disp.Sub(m.h.disp)
				if recorded.IsPositive() && recorded.Sub(arrived).GT(math.NewInt(1000)) {
					funded = false
					m.st.Bucket("c19|dispute-message|recorded-as-paid-but-coins-missing")
				}
			}
			m.st.Bucket("c19|dispute-message|%T|funded-after=%v", x, funded)
			if addr, err := sdk.AccAddressFromBech32(ev.Reporter); err == nil && funded {
				allowed[ev.Reporter] = "disputed-reporter"
				// "its backers": the accounts that had selected the reporter when the report was made - the monitor's own record
				// of that moment; the chain's stake snapshot is only used for reports the monitor did not see being made
				if own, seen := m.backers[fmt.Sprintf("%x|%s|%d", ev.QueryId, ev.Reporter, ev.BlockNumber)]; seen {
					m.st.Bucket("c19|backers-from-own-record")
					for _, b := range own {
						allowed[b] = "backer-of-disputed-report"
					}
				} else if snap, err := c.App.ReporterKeeper.Report.Get(ctx, collJoinReport(ev.QueryId, addr, ev.BlockNumber)); err == nil {
					for _, o := range snap.TokenOrigins {
						allowed[sdk.AccAddress(o.DelegatorAddress).String()] = "backer-of-disputed-report"
					}
				}
			}
			// (b) a reporter paying from the stake selected to it - as far as it is the FEE that is taken: what arrives in
			// the dispute account in this transaction is what the transaction records as fee and as escrowed stake; stake
			// taken from the selectors beyond that is not a fee payment (added after C19-j)
			if fromBond {
				recorded := after.recFee.Sub(m.h.recFee).Add(after.recEsc.Sub(m.h.recEsc))
				arrived := after.disp.Sub(m.h.disp)
				m.st.Bucket("c19|fee-from-stake|arrived-minus-recorded=%d", arrived.Sub(recorded).Sign())
				if arrived.Sub(recorded).GT(math.NewInt(1000)) {
					c.Violate("C19", "c19", "more-taken-from-selected-stake-than-recorded-as-fee:"+name, map[string]interface{}{"arrived_in_dispute_account": arrived.String(), "recorded_fee_and_escrow": recorded.String(), "tx": describe(tx.GetMsgs())})
				}
				for s := range signers {
					for sel, rep := range m.h.sel {
						if rep == s {
							allowed[sel] = "selector-of-fee-paying-reporter"
						}
					}
				}
			}
		case *reportertypes.MsgRemoveSelector:
			// (c) removal of a selector below the minimum of a full reporter
			rep := m.h.sel[x.SelectorAddress]
			r, ok := m.repo[rep]
			params, _ := c.App.ReporterKeeper.Params.Get(ctx)
			n := 0
			for _, rr := range m.h.sel {
				if rr == rep {
					n++
				}
			}
			addr, _ := sdk.AccAddressFromBech32(x.SelectorAddress)
			_, bonded, _, _ := bondedStake(c, ctx, addr)
			full := uint64(n) >= params.MaxSelectors
			m.st.Bucket("c19|remove-selector|below-min=%v|full=%v", ok && bonded.LT(r.MinTokensRequired), full)
			if ok && bonded.LT(r.MinTokensRequired) && full {
				allowed[x.SelectorAddress] = "selector-below-minimum-of-full-reporter"
			}
		}
	}
	// ---- nobody else is touched ----
	victims := 0
	check := func(addr, what string, dec bool) {
		if !dec || signers[addr] {
			return
		}
		if why, ok := allowed[addr]; ok {
			// each exception covers only what the statement names: a dispute's consequences and a fee paid from selected
			// stake reduce STAKE (delegations, unbonding balances); the removal of a selector changes its SELECTION
			stakeKind := what == "delegation" || what == "unbonding-balance"
			if (why == "selector-below-minimum-of-full-reporter" && what == "selection") || (why != "selector-below-minimum-of-full-reporter" && stakeKind) {
				m.st.Bucket("c19|exception|%s|%s", why, what)
				return
			}
			m.st.Bucket("c19|exception-does-not-cover|%s|%s", why, what)
		}
		if c.W.ByAddr[addr] == nil && what == "balance" {
			return // module accounts move funds as part of the protocol
		}
		victims++
		c.Violate("C19", "c19", fmt.Sprintf("non-signer-%s-reduced:%s", what, name), map[string]interface{}{"account": addr, "tx": describe(tx.GetMsgs())})
	}
	for a, b := range m.h.bal {
		check(a, "balance", get(after.bal, a).LT(b))
	}
	for k, sh := range m.h.shares {
		nsh, ok := after.shares[k]
		check(strings.SplitN(k, "|", 2)[0], "delegation", !ok || nsh.LT(sh))
	}
	for a, b := range m.h.ubd {
		check(a, "unbonding-balance", get(after.ubd, a).LT(b))
	}
	for a, t := range m.h.tips {
		nt, ok := after.tips[a]
		check(sdk.AccAddress(a).String(), "reward-credit", !ok || nt.LT(t))
	}
	for a, r := range m.h.sel {
		check(a, "selection", after.sel[a] != r)
	}
	// a recorded fee payment awaiting its refund is a credit of the payer: when a transaction the payer did not sign
	// consumes it, the value must reach the payer (balance or stake), not the signer
	for k, amt := range m.h.refund {
		if _, still := after.refund[k]; still {
			continue
		}
		payer := strings.SplitN(k, "|", 2)[1]
		if signers[payer] {
			continue
		}
		gotPayer := get(after.bal, payer).Sub(get(m.h.bal, payer))
		paidOut := m.h.disp.Sub(after.disp) // what left dispute escrow in this transaction
		m.st.Bucket("c19|refund-consumed-by-non-payer|payer-received=%v|escrow-paid-out=%v", gotPayer.IsPositive(), paidOut.GT(math.NewInt(3)))
		if !gotPayer.IsPositive() && paidOut.GT(math.NewInt(3)) {
			c.Violate("C19", "c19", "fee-refund-of-non-signer-not-paid-to-the-payer:"+name, map[string]interface{}{"record": k, "recorded_amount": amt.String(), "payer_received": gotPayer.String(), "left_dispute_escrow": paidOut.String()})
		}
	}
	m.st.Bucket("c19|tx|%s|signers=%d|exceptions=%d", name, len(signers), minInt(len(allowed), 3))
	m.h, m.p = after, priv
	m.repo = map[string]reportertypes.OracleReporter{}
	_ = c.App.ReporterKeeper.Reporters.Walk(ctx, nil, func(k []byte, r reportertypes.OracleReporter) (bool, error) {
		m.repo[sdk.AccAddress(k).String()] = r
		return false, nil
	})
}
