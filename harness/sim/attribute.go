package sim

import (
	"fmt"

	"github.com/tellor-io/layer/app"
	"github.com/tellor-io/layer/x/dispute"
	"github.com/tellor-io/layer/x/mint"
	"github.com/tellor-io/layer/x/oracle"

	sdk "github.com/cosmos/cosmos-sdk/types"
)

// attribution: after a failing automatic phase, re-run the layer modules' callbacks one by one on a
// branch of the state at phase entry to name the module whose callback fails. Advisory only (the
// signature of a C02 violation), it never decides anything.
func try(name string, f func() error) (out string) {
	defer func() {
		if r := recover(); r != nil {
			out = name
		}
	}()
	if err := f(); err != nil {
		return name
	}
	return ""
}

func attributeBegin(a *app.App, ctx sdk.Context) string {
	if ctx.MultiStore() == nil {
		return ""
	}
	for _, t := range []struct {
		n string
		f func() error
	}{
		{"mint", func() error { return mint.BeginBlocker(ctx, a.MintKeeper) }},
		{"dispute", func() error { return dispute.BeginBlocker(ctx, a.DisputeKeeper) }},
	} {
		if m := try(t.n, t.f); m != "" {
			return m
		}
	}
	return "sdk"
}

func attributeEnd(a *app.App, ctx sdk.Context) (mod string) {
	defer func() {
		if r := recover(); r != nil {
			mod = fmt.Sprint("attribution-panic")
		}
	}()
	if ctx.MultiStore() == nil {
		return ""
	}
	for _, t := range []struct {
		n string
		f func() error
	}{
		{"oracle", func() error { return oracle.EndBlocker(ctx, a.OracleKeeper) }},
		{"bridge", func() error {
			if _, err := a.BridgeKeeper.CompareAndSetBridgeValidators(ctx); err != nil {
				return err
			}
			return a.BridgeKeeper.CreateNewReportSnapshots(ctx)
		}},
		{"reporter", func() error { return a.ReporterKeeper.TrackStakeChange(ctx) }},
	} {
		if m := try(t.n, t.f); m != "" {
			return m
		}
	}
	return "sdk"
}
