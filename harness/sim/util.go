package sim

import (
	"cosmossdk.io/collections"
	"crypto/sha256"

	sdk "github.com/cosmos/cosmos-sdk/types"
)

func collJoinReport(queryId []byte, reporter sdk.AccAddress, height uint64) collections.Pair[[]byte, collections.Pair[[]byte, uint64]] {
	return collections.Join(queryId, collections.Join(reporter.Bytes(), height))
}

func sha256sum(b []byte) []byte {
	h := sha256.Sum256(b)
	return h[:]
}
