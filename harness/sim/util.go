package sim

import (
	"crypto/sha256"

	"cosmossdk.io/collections"
	"cosmossdk.io/math"

	"github.com/ethereum/go-ethereum/common"
	ethcrypto "github.com/ethereum/go-ethereum/crypto"
	reportertypes "github.com/tellor-io/layer/x/reporter/types"

	sdk "github.com/cosmos/cosmos-sdk/types"
)

func collJoinReport(queryId []byte, reporter sdk.AccAddress, height uint64) collections.Pair[[]byte, collections.Pair[[]byte, uint64]] {
	return collections.Join(queryId, collections.Join(reporter.Bytes(), height))
}

func sha256sum(b []byte) []byte {
	h := sha256.Sum256(b)
	return h[:]
}

// ---- lookups the monitors do themselves, reading the collections directly, so that a defect in one of the keeper's
// lookup functions cannot make monitor and chain agree (seeded change C14-f did exactly that) ----

// ownEVMAddressFromSignatures: the one address that both initial bridge signatures recover to (either recovery id).
func ownEVMAddressFromSignatures(sigA, sigB []byte) (common.Address, bool) {
	rec := func(sig []byte, msg string) map[common.Address]bool {
		out := map[common.Address]bool{}
		if len(sig) < 64 {
			return out
		}
		h1 := sha256.Sum256([]byte(msg))
		h2 := sha256.Sum256(h1[:]) // the keyring signer hashes once more
		for _, id := range []byte{0, 1} {
			s := append(append([]byte{}, sig[:64]...), id)
			if pk, err := ethcrypto.SigToPub(h2[:], s); err == nil {
				out[ethcrypto.PubkeyToAddress(*pk)] = true
			}
		}
		return out
	}
	a, b := rec(sigA, "TellorLayer: Initial bridge signature A"), rec(sigB, "TellorLayer: Initial bridge signature B")
	var common1 []common.Address
	for x := range a {
		if b[x] {
			common1 = append(common1, x)
		}
	}
	if len(common1) != 1 {
		return common.Address{}, false
	}
	return common1[0], true
}

// ownTipsAtBlock: the tipper's running total recorded at the greatest height <= block.
func ownTipsAtBlock(c *Chain, ctx sdk.Context, tipper sdk.AccAddress, block uint64) math.Int {
	out := math.ZeroInt()
	_ = c.App.OracleKeeper.TipperTotal.Walk(ctx, collections.NewPrefixedPairRange[[]byte, uint64](tipper.Bytes()), func(k collections.Pair[[]byte, uint64], v math.Int) (bool, error) {
		if string(k.K1()) == string(tipper.Bytes()) && k.K2() <= block {
			out = v // ascending heights: the last one at or below the block stays
		}
		return false, nil
	})
	return out
}

// ownSnapshotAt: the reporter's stake snapshot with the greatest height <= block (several snapshots at that height with
// different totals: ambiguous).
func ownSnapshotAt(c *Chain, ctx sdk.Context, reporter []byte, block uint64) (snap reportertypes.DelegationsAmounts, found, ambiguous bool) {
	it, err := c.App.ReporterKeeper.Report.Iterate(ctx, nil)
	if err != nil {
		return
	}
	defer it.Close()
	best := uint64(0)
	for ; it.Valid(); it.Next() {
		k, err := it.Key()
		if err != nil {
			continue
		}
		if string(k.K2().K1()) != string(reporter) || k.K2().K2() > block {
			continue
		}
		h := k.K2().K2()
		if found && h < best {
			continue
		}
		v, err := it.Value()
		if err != nil {
			continue
		}
		if found && h == best {
			if !v.Total.Equal(snap.Total) {
				ambiguous = true
			}
			continue
		}
		snap, found, best, ambiguous = v, true, h, false
	}
	return
}

// ownDelegatorTokensAt: what the delegator contributed to the snapshot of the reporter it has selected now.
func ownDelegatorTokensAt(c *Chain, ctx sdk.Context, delegator []byte, block uint64) (amt math.Int, ok, ambiguous bool) {
	sel, err := c.App.ReporterKeeper.Selectors.Get(ctx, delegator)
	if err != nil {
		return math.ZeroInt(), false, false
	}
	snap, found, amb := ownSnapshotAt(c, ctx, sel.Reporter, block)
	amt = math.ZeroInt()
	if !found {
		return amt, false, false
	}
	for _, o := range snap.TokenOrigins {
		if string(o.DelegatorAddress) == string(delegator) {
			amt = amt.Add(o.Amount)
		}
	}
	return amt, true, amb
}
