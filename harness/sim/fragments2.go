package sim

import (
	"encoding/hex"
	"strconv"

	"cosmossdk.io/math"
	bridgetypes "github.com/tellor-io/layer/x/bridge/types"
	"math/big"
	"time"

	disputetypes "github.com/tellor-io/layer/x/dispute/types"
	oracletypes "github.com/tellor-io/layer/x/oracle/types"
	reportertypes "github.com/tellor-io/layer/x/reporter/types"

	sdk "github.com/cosmos/cosmos-sdk/types"
	stakingtypes "github.com/cosmos/cosmos-sdk/x/staking/types"
)

// Directed fragments added after the sixth round of seeded changes (see DESIGN.md section 7).

// lastReportOf returns the most recent stored report of a reporter (optionally for one query id).
func (g *Gen) lastReportOf(reporter string, qid []byte) (oracletypes.MicroReport, bool) {
	for i := len(g.Reports) - 1; i >= 0; i-- {
		r := g.Reports[i].R
		if r.Reporter == reporter && (qid == nil || string(r.QueryId) == string(qid)) {
			return r, true
		}
	}
	return oracletypes.MicroReport{}, false
}

func (g *Gen) reportCycle(op *Account, v int64) [][]byte {
	if g.tb.Used(op) {
		return nil
	}
	cq, err := g.c.App.OracleKeeper.GetCurrentQueryInCycleList(g.c.CommittedCtx())
	if err != nil {
		return nil
	}
	return [][]byte{g.tx(op, &oracletypes.MsgSubmitValue{Creator: op.Bech(), QueryData: cq, Value: Uint256Value(big.NewInt(v))})}
}

func init() {
	wait := func() [][]byte { return nil }

	// deepRounds: one dispute (warning) is carried through up to six rounds: nobody is asked to vote, the two days of
	// voting pass in one block gap, and the next round is proposed in that same block (its fee is offered in full, the
	// chain charges what the round costs)
	fragments["deepRounds"] = func(g *Gen) []func() [][]byte {
		n := g.c.W.Cfg.NumVals
		if n < 2 {
			return nil
		}
		rep := g.c.W.Vals[n-1].Op
		report := func() [][]byte { return g.reportCycle(rep, 777) }
		propose := func() [][]byte {
			r, ok := g.lastReportOf(rep.Bech(), nil)
			s := g.free(g.user)
			if !ok || s == nil {
				return nil
			}
			full := int64(r.Power) * 1_000_000 / 100
			return [][]byte{g.tx(s, &disputetypes.MsgProposeDispute{Creator: s.Bech(), Report: &r, DisputeCategory: disputetypes.Warning, Fee: rawCoin(full)})}
		}
		next := func() [][]byte {
			g.ForceGap = 48*time.Hour + time.Minute
			return propose()
		}
		steps := []func() [][]byte{wait, wait, wait, wait, wait, wait, report, report, report, wait, wait, propose}
		for i := 0; i < 6; i++ {
			steps = append(steps, next, wait)
		}
		return steps
	}

	// twinAggregates: the strongest reporter reports two tipped queries in ONE transaction, so both aggregates carry the
	// same micro height; both reports are then disputed (in full) and evidence naming them is added
	fragments["twinAggregates"] = func(g *Gen) []func() [][]byte {
		if len(g.spots) < 6 {
			return nil
		}
		rep := g.c.W.Vals[0].Op
		qa, qb := g.spots[4], g.spots[5]
		tip := func() [][]byte {
			var out [][]byte
			for _, q := range [][]byte{qa, qb} {
				if s := g.free(g.user); s != nil {
					out = append(out, g.tx(s, &oracletypes.MsgTip{Tipper: s.Bech(), QueryData: q, Amount: rawCoin(1_000_000)}))
				}
			}
			return out
		}
		report := func() [][]byte {
			if g.tb.Used(rep) {
				return nil
			}
			return [][]byte{g.tx(rep,
				&oracletypes.MsgSubmitValue{Creator: rep.Bech(), QueryData: qa, Value: Uint256Value(big.NewInt(1111))},
				&oracletypes.MsgSubmitValue{Creator: rep.Bech(), QueryData: qb, Value: Uint256Value(big.NewInt(2222))})}
		}
		dispute := func(q []byte) func() [][]byte {
			return func() [][]byte {
				r, ok := g.lastReportOf(rep.Bech(), QueryID(q))
				s := g.free(g.user)
				if !ok || s == nil {
					return nil
				}
				full := int64(r.Power) * 1_000_000 / 100
				return [][]byte{g.tx(s, &disputetypes.MsgProposeDispute{Creator: s.Bech(), Report: &r, DisputeCategory: disputetypes.Warning, Fee: rawCoin(full)})}
			}
		}
		unjail := func() [][]byte {
			if g.tb.Used(rep) {
				return nil
			}
			return [][]byte{g.tx(rep, &reportertypes.MsgUnjailReporter{ReporterAddress: rep.Bech()})}
		}
		return []func() [][]byte{wait, wait, wait, wait, wait, wait, tip, report, wait, wait, wait, wait, wait, wait, dispute(qa), unjail, dispute(qb), unjail, wait}
	}

	// switchAfterRebond: a selector's stake backs reporter A's report of a (2000-block) deposit round, is undelegated,
	// A reports again, the undelegation is cancelled, the selector switches to reporter B and B reports the same round
	fragments["switchAfterRebond"] = func(g *Gen) []func() [][]byte {
		n := g.c.W.Cfg.NumVals
		if n < 3 || len(g.c.W.Users) < 8 {
			return nil
		}
		const id = 21
		qd := BridgeQuery(true, id)
		val := DepositValue([]byte{id, 9, 9}, g.c.W.Users[1].Bech(), new(big.Int).Mul(big.NewInt(2), big.NewInt(1e18)), big.NewInt(0))
		u := g.c.W.Users[len(g.c.W.Users)-5]
		a, b, v := g.c.W.Vals[0].Op, g.c.W.Vals[1].Op, g.c.W.Vals[1]
		amt := sdk.NewInt64Coin(Denom, 7_000_000)
		one := func(signer *Account, m sdk.Msg) func() [][]byte {
			return func() [][]byte {
				if g.tb.Used(signer) {
					return nil
				}
				return [][]byte{g.tx(signer, m)}
			}
		}
		repA := one(a, &oracletypes.MsgSubmitValue{Creator: a.Bech(), QueryData: qd, Value: val})
		repB := one(b, &oracletypes.MsgSubmitValue{Creator: b.Bech(), QueryData: qd, Value: val})
		cancel := func() [][]byte {
			if g.tb.Used(u) {
				return nil
			}
			ubd, err := g.c.App.StakingKeeper.GetUnbondingDelegation(g.c.CommittedCtx(), u.Addr, v.ValAdr)
			if err != nil || len(ubd.Entries) == 0 {
				return nil
			}
			e := ubd.Entries[len(ubd.Entries)-1]
			return [][]byte{g.tx(u, &stakingtypes.MsgCancelUnbondingDelegation{DelegatorAddress: u.Bech(), ValidatorAddress: v.ValAdr.String(), Amount: sdk.NewCoin(Denom, e.Balance), CreationHeight: e.CreationHeight})}
		}
		return []func() [][]byte{wait, wait, wait, wait, wait, wait,
			one(u, &stakingtypes.MsgDelegate{DelegatorAddress: u.Bech(), ValidatorAddress: v.ValAdr.String(), Amount: amt}),
			one(u, &reportertypes.MsgSelectReporter{SelectorAddress: u.Bech(), ReporterAddress: a.Bech()}),
			repA, wait,
			one(u, &stakingtypes.MsgUndelegate{DelegatorAddress: u.Bech(), ValidatorAddress: v.ValAdr.String(), Amount: amt}),
			repA, wait, cancel,
			one(u, &reportertypes.MsgSwitchReporter{SelectorAddress: u.Bech(), ReporterAddress: b.Bech()}),
			repB, wait, repB, wait}
	}

	// rejail: two reports of one reporter; the first is disputed as minor (ten minutes of jail), the second a block later
	// as warning (release possible at once) while the reporter is still jailed
	fragments["rejail"] = func(g *Gen) []func() [][]byte {
		if g.c.W.Cfg.NumVals < 2 {
			return nil
		}
		a := g.c.W.Vals[1].Op
		var heights []uint64
		report := func() [][]byte {
			out := g.reportCycle(a, 5151)
			if out != nil {
				heights = append(heights, uint64(g.c.Height+1))
			}
			return out
		}
		dispute := func(k int, cat disputetypes.DisputeCategory, pct int64) func() [][]byte {
			return func() [][]byte {
				s := g.free(g.user)
				if s == nil || len(heights) <= k {
					return nil
				}
				for i := len(g.Reports) - 1; i >= 0; i-- {
					r := g.Reports[i].R
					if r.Reporter == a.Bech() && r.BlockNumber == heights[k] {
						full := int64(r.Power) * 1_000_000 * pct / 100
						return [][]byte{g.tx(s, &disputetypes.MsgProposeDispute{Creator: s.Bech(), Report: &r, DisputeCategory: cat, Fee: rawCoin(full)})}
					}
				}
				return nil
			}
		}
		return []func() [][]byte{wait, wait, wait, wait, wait, wait, report, report, report, wait, wait,
			dispute(0, disputetypes.Minor, 5), dispute(1, disputetypes.Warning, 1), wait}
	}

	// exactFivePercent: the bridge validator set is moved away from the set of the last checkpoint by EXACTLY five per
	// cent of that set's power (a delegation to one validator and an undelegation from another, so that total stake -
	// and the 5 % / 12 h admission rule - is not touched); tried four times in a history
	fragments["exactFivePercent"] = func(g *Gen) []func() [][]byte {
		exact := func() [][]byte {
			ctx := g.c.CommittedCtx()
			stored, err := g.c.App.BridgeKeeper.BridgeValset.Get(ctx)
			if err != nil {
				return nil
			}
			cur, err := g.c.App.BridgeKeeper.GetCurrentValidatorSetEVMCompatible(ctx)
			if err != nil || cur == nil {
				return nil
			}
			total, delta := int64(0), int64(0)
			diff := map[string]int64{} // current minus stored, per EVM address
			for _, v := range stored.BridgeValidatorSet {
				total += int64(v.Power)
				diff[string(v.EthereumAddress)] -= int64(v.Power)
			}
			for _, v := range cur.BridgeValidatorSet {
				diff[string(v.EthereumAddress)] += int64(v.Power)
			}
			for _, d := range diff {
				if d < 0 {
					d = -d
				}
				delta += d
			}
			target := (total + 19) / 20
			if total == 0 || target*1_000_000/total != 50_000 || delta >= target {
				return nil
			}
			need := target - delta
			up, down := need-need/2, need/2
			var out [][]byte
			var upVal, downVal *ValKeys
			for _, k := range g.c.W.Vals[:g.c.W.Cfg.NumVals] {
				d, in := diff[string(k.EVMAddress())]
				if !in {
					continue
				}
				if d >= 0 && upVal == nil {
					upVal = k
				} else if d <= 0 && downVal == nil {
					downVal = k
				}
			}
			if upVal == nil {
				return nil
			}
			if downVal == nil || g.tb.Used(downVal.Op) {
				up, down = need, 0
			}
			if s := g.free(g.user); s != nil && up > 0 {
				out = append(out, g.tx(s, &stakingtypes.MsgDelegate{DelegatorAddress: s.Bech(), ValidatorAddress: upVal.ValAdr.String(), Amount: sdk.NewInt64Coin(Denom, up*1_000_000)}))
			}
			if down > 0 {
				out = append(out, g.tx(downVal.Op, &stakingtypes.MsgUndelegate{DelegatorAddress: downVal.Op.Bech(), ValidatorAddress: downVal.ValAdr.String(), Amount: sdk.NewInt64Coin(Denom, down*1_000_000)}))
			}
			return out
		}
		steps := []func() [][]byte{wait, wait, wait, wait, wait, wait, wait, wait}
		for i := 0; i < 4; i++ {
			steps = append(steps, exact, wait, wait, wait, wait, wait)
		}
		return steps
	}

	// cyclelistMidRound: governance replaces the cycle list (by a list with the same queries) while two reporters report
	// the scheduled query in every block, so that whichever block the proposal executes in, the scheduled query's open,
	// untipped round already holds reports
	fragments["cyclelistMidRound"] = func(g *Gen) []func() [][]byte {
		steps := []func() [][]byte{wait, wait, wait, wait, wait, wait}
		cl := [][]byte{g.spots[0], g.spots[1], g.spots[2], g.spots[3]}
		steps = append(steps, g.govSteps(&oracletypes.MsgUpdateCyclelist{Authority: govAddr(), Cyclelist: cl})...)
		for i := 0; i < 40; i++ {
			i := i
			steps = append(steps, func() [][]byte {
				var out [][]byte
				for k := 0; k < 2 && k < g.c.W.Cfg.NumVals; k++ {
					out = append(out, g.reportCycle(g.c.W.Vals[(i+k)%g.c.W.Cfg.NumVals].Op, int64(3000+i))...)
				}
				return out
			})
		}
		return steps
	}

	// dustReporter: governance lowers the oracle's minimum stake far below one token; a user becomes a reporter with one
	// token, undelegates most of it (its stake is then worth no whole unit of power) and is the only one to report a
	// tipped query; a second tipped query is reported by it together with a genesis validator
	fragments["dustReporter"] = func(g *Gen) []func() [][]byte {
		if len(g.c.W.Users) < 9 || len(g.spots) < 6 {
			return nil
		}
		u := g.c.W.Users[len(g.c.W.Users)-7]
		v0 := g.c.W.Vals[0]
		one := func(signer *Account, m ...sdk.Msg) func() [][]byte {
			return func() [][]byte {
				if g.tb.Used(signer) {
					return nil
				}
				return [][]byte{g.tx(signer, m...)}
			}
		}
		tip := func(q []byte) func() [][]byte {
			return func() [][]byte {
				if s := g.free(g.user); s != nil {
					return [][]byte{g.tx(s, &oracletypes.MsgTip{Tipper: s.Bech(), QueryData: q, Amount: rawCoin(2_000_000)})}
				}
				return nil
			}
		}
		steps := []func() [][]byte{wait, wait, wait, wait, wait, wait}
		steps = append(steps, g.govSteps(&oracletypes.MsgUpdateParams{Authority: govAddr(), Params: oracletypes.Params{MinStakeAmount: math.NewInt(1)}})...)
		steps = append(steps,
			one(u, &stakingtypes.MsgDelegate{DelegatorAddress: u.Bech(), ValidatorAddress: v0.ValAdr.String(), Amount: sdk.NewInt64Coin(Denom, 1_000_000)}),
			one(u, &reportertypes.MsgCreateReporter{ReporterAddress: u.Bech(), CommissionRate: math.LegacyNewDecWithPrec(5, 2), MinTokensRequired: math.NewInt(1_000_000)}),
			one(u, &stakingtypes.MsgUndelegate{DelegatorAddress: u.Bech(), ValidatorAddress: v0.ValAdr.String(), Amount: sdk.NewInt64Coin(Denom, 600_000)}))
		for i := 0; i < 12; i++ {
			steps = append(steps, wait) // the governance proposal passes meanwhile
		}
		for i := 0; i < 3; i++ {
			steps = append(steps, tip(g.spots[4]),
				one(u, &oracletypes.MsgSubmitValue{Creator: u.Bech(), QueryData: g.spots[4], Value: Uint256Value(big.NewInt(777))}), wait, wait, wait,
				tip(g.spots[5]),
				func() [][]byte {
					var out [][]byte
					out = append(out, one(u, &oracletypes.MsgSubmitValue{Creator: u.Bech(), QueryData: g.spots[5], Value: Uint256Value(big.NewInt(778))})()...)
					out = append(out, one(v0.Op, &oracletypes.MsgSubmitValue{Creator: v0.Op.Bech(), QueryData: g.spots[5], Value: Uint256Value(big.NewInt(779))})()...)
					return out
				}, wait, wait, wait)
		}
		return steps
	}

	// twinReportsStakeChange: in ONE block a reporter reports a tipped query, a user with bonded stake selects that
	// reporter, and the reporter reports a second tipped query: two stake snapshots of one reporter at one height with
	// different contents (the reward of each report has to be split by its own snapshot)
	fragments["twinReportsStakeChange"] = func(g *Gen) []func() [][]byte {
		if len(g.c.W.Users) < 10 || len(g.spots) < 6 {
			return nil
		}
		steps := []func() [][]byte{wait, wait, wait, wait, wait, wait}
		for round := 0; round < 3; round++ {
			round := round
			u := g.c.W.Users[len(g.c.W.Users)-8-round%2]
			rep := g.c.W.Vals[round%g.c.W.Cfg.NumVals].Op
			val := g.c.W.Vals[0]
			steps = append(steps,
				func() [][]byte {
					var out [][]byte
					if !g.tb.Used(u) {
						out = append(out, g.tx(u, &stakingtypes.MsgDelegate{DelegatorAddress: u.Bech(), ValidatorAddress: val.ValAdr.String(), Amount: sdk.NewInt64Coin(Denom, int64(3_000_000+round*1_111_111))}))
					}
					for _, q := range [][]byte{g.spots[4], g.spots[5]} {
						if s := g.free(g.user); s != nil {
							out = append(out, g.tx(s, &oracletypes.MsgTip{Tipper: s.Bech(), QueryData: q, Amount: rawCoin(3_000_000)}))
						}
					}
					return out
				},
				func() [][]byte {
					if g.tb.Used(rep) || g.tb.Used(u) {
						return nil
					}
					// three transactions in this order; the reporter signs two of them (consecutive sequence numbers)
					first := g.tb.Tx(rep, &oracletypes.MsgSubmitValue{Creator: rep.Bech(), QueryData: g.spots[4], Value: Uint256Value(big.NewInt(int64(6100 + round)))})
					var sel sdk.Msg = &reportertypes.MsgSelectReporter{SelectorAddress: u.Bech(), ReporterAddress: rep.Bech()}
					if _, err := g.c.App.ReporterKeeper.Selectors.Get(g.c.CommittedCtx(), u.Addr.Bytes()); err == nil {
						sel = &reportertypes.MsgSwitchReporter{SelectorAddress: u.Bech(), ReporterAddress: rep.Bech()}
					}
					mid := g.tb.Tx(u, sel)
					second := g.tb.Tx(rep, &oracletypes.MsgSubmitValue{Creator: rep.Bech(), QueryData: g.spots[5], Value: Uint256Value(big.NewInt(int64(6200 + round)))})
					// ... and then the FIRST query again: the later report replaces the earlier one of this block, and the
					// stake recorded for it has to be the stake selected now (after C09-j)
					third := g.tb.Tx(rep, &oracletypes.MsgSubmitValue{Creator: rep.Bech(), QueryData: g.spots[4], Value: Uint256Value(big.NewInt(int64(6300 + round)))})
					var out [][]byte
					for _, t := range [][]byte{first, mid, second, third} {
						if t != nil {
							out = append(out, t)
						}
					}
					return out
				}, wait, wait, wait, wait)
		}
		return steps
	}

	// movedStake: a backer's stake leaves the validator it was on when the report was made, in two ways at once, and the
	// report is disputed. kind "unbond+redelegate": 40 % is undelegated, 60 % redelegated, major dispute (everything is
	// taken: the whole unbonding entry and the redelegated rest). kind "two-destinations": 2 % is redelegated to the
	// validator with the lower address, 98 % to the other, minor dispute (5 %: all of the first destination and a part
	// of the second)
	moved := func(kind string) func(g *Gen) []func() [][]byte {
		return func(g *Gen) []func() [][]byte {
			n := g.c.W.Cfg.NumVals
			if n < 3 || len(g.c.W.Users) < 11 {
				return nil
			}
			u := g.c.W.Users[len(g.c.W.Users)-10]
			a := g.c.W.Vals[1].Op
			src, d1, d2 := g.c.W.Vals[0], g.c.W.Vals[1], g.c.W.Vals[2]
			if string(d2.ValAdr) < string(d1.ValAdr) {
				d1, d2 = d2, d1
			}
			one := func(signer *Account, m sdk.Msg) func() [][]byte {
				return func() [][]byte {
					if g.tb.Used(signer) {
						return nil
					}
					return [][]byte{g.tx(signer, m)}
				}
			}
			coin := func(x int64) sdk.Coin { return sdk.NewInt64Coin(Denom, x) }
			var reported uint64
			report := func() [][]byte {
				out := g.reportCycle(a, 4747)
				if out != nil {
					reported = uint64(g.c.Height + 1)
				}
				return out
			}
			dispute := func(cat disputetypes.DisputeCategory, pct int64) func() [][]byte {
				return func() [][]byte {
					s := g.free(g.user)
					if s == nil || reported == 0 {
						return nil
					}
					for i := len(g.Reports) - 1; i >= 0; i-- {
						r := g.Reports[i].R
						if r.Reporter == a.Bech() && r.BlockNumber == reported {
							return [][]byte{g.tx(s, &disputetypes.MsgProposeDispute{Creator: s.Bech(), Report: &r, DisputeCategory: cat, Fee: rawCoin(int64(r.Power) * 1_000_000 * pct / 100)})}
						}
					}
					return nil
				}
			}
			steps := []func() [][]byte{wait, wait, wait, wait, wait, wait,
				one(u, &stakingtypes.MsgDelegate{DelegatorAddress: u.Bech(), ValidatorAddress: src.ValAdr.String(), Amount: coin(10_000_000)}),
				one(u, &reportertypes.MsgSelectReporter{SelectorAddress: u.Bech(), ReporterAddress: a.Bech()}),
				report, wait}
			if kind == "unbond+redelegate" {
				steps = append(steps,
					one(u, &stakingtypes.MsgUndelegate{DelegatorAddress: u.Bech(), ValidatorAddress: src.ValAdr.String(), Amount: coin(4_000_000)}),
					one(u, &stakingtypes.MsgBeginRedelegate{DelegatorAddress: u.Bech(), ValidatorSrcAddress: src.ValAdr.String(), ValidatorDstAddress: d2.ValAdr.String(), Amount: coin(6_000_000)}),
					wait, dispute(disputetypes.Major, 100), wait)
			} else {
				steps = append(steps,
					one(u, &stakingtypes.MsgBeginRedelegate{DelegatorAddress: u.Bech(), ValidatorSrcAddress: src.ValAdr.String(), ValidatorDstAddress: d1.ValAdr.String(), Amount: coin(200_000)}),
					one(u, &stakingtypes.MsgBeginRedelegate{DelegatorAddress: u.Bech(), ValidatorSrcAddress: src.ValAdr.String(), ValidatorDstAddress: d2.ValAdr.String(), Amount: coin(9_800_000)}),
					wait, dispute(disputetypes.Minor, 5), wait)
			}
			return steps
		}
	}
	fragments["movedStakeUnbondRedelegate"] = moved("unbond+redelegate")
	fragments["movedStakeTwoDestinations"] = moved("two-destinations")

	// teamRotation: the team votes on an open dispute (no quorum), hands the team role to an address that does not vote,
	// and the voting period ends: the tally at the beginning of that block has to cope with a team that "did not vote"
	fragments["teamRotation"] = func(g *Gen) []func() [][]byte {
		n := g.c.W.Cfg.NumVals
		if n < 2 || len(g.c.W.Users) < 4 {
			return nil
		}
		rep := g.c.W.Vals[n-1].Op
		team := g.c.W.Team
		heir := g.c.W.Users[len(g.c.W.Users)-2]
		report := func() [][]byte { return g.reportCycle(rep, 888) }
		propose := func() [][]byte {
			r, ok := g.lastReportOf(rep.Bech(), nil)
			s := g.free(g.user)
			if !ok || s == nil {
				return nil
			}
			return [][]byte{g.tx(s, &disputetypes.MsgProposeDispute{Creator: s.Bech(), Report: &r, DisputeCategory: disputetypes.Warning, Fee: rawCoin(int64(r.Power) * 1_000_000 / 100)})}
		}
		vote := func() [][]byte {
			if g.tb.Used(team) {
				return nil
			}
			var id uint64
			_ = g.c.App.DisputeKeeper.Disputes.Walk(g.c.CommittedCtx(), nil, func(k uint64, d disputetypes.Dispute) (bool, error) {
				if d.DisputeStatus == disputetypes.Voting && d.InitialEvidence.Reporter == rep.Bech() {
					id = k
				}
				return false, nil
			})
			if id == 0 {
				return nil
			}
			return [][]byte{g.tx(team, &disputetypes.MsgVote{Voter: team.Bech(), Id: id, Vote: disputetypes.VoteEnum_VOTE_SUPPORT})}
		}
		rotate := func() [][]byte {
			if g.tb.Used(team) {
				return nil
			}
			return [][]byte{g.tx(team, &disputetypes.MsgUpdateTeam{CurrentTeamAddress: team.Bech(), NewTeamAddress: heir.Bech()})}
		}
		end := func() [][]byte { g.ForceGap = 48*time.Hour + time.Minute; return nil }
		return []func() [][]byte{wait, wait, wait, wait, wait, wait, report, report, wait, propose, wait, vote, rotate, end, wait, wait}
	}

	// unbondedValidatorDispute: a backer's stake sits with the smallest validator when the report is made; that validator
	// misses blocks, is jailed and - three weeks later - fully unbonded, the backer still delegated to it; then the old
	// report is disputed (minor)
	fragments["unbondedValidatorDispute"] = func(g *Gen) []func() [][]byte {
		n := g.c.W.Cfg.NumVals
		if n < 4 || len(g.c.W.Users) < 12 {
			return nil
		}
		u := g.c.W.Users[len(g.c.W.Users)-11]
		small, a := g.c.W.Vals[n-1], g.c.W.Vals[0].Op
		one := func(signer *Account, m sdk.Msg) func() [][]byte {
			return func() [][]byte {
				if g.tb.Used(signer) {
					return nil
				}
				return [][]byte{g.tx(signer, m)}
			}
		}
		var reported uint64
		report := func() [][]byte {
			out := g.reportCycle(a, 4848)
			if out != nil {
				reported = uint64(g.c.Height + 1)
			}
			return out
		}
		down := func() [][]byte {
			g.downVal, g.downUntil, g.downDone = string(small.ConsAdr), g.c.Height+10, true
			return nil
		}
		longGap := func() [][]byte { g.ForceGap = 22 * 24 * time.Hour; return nil }
		dispute := func() [][]byte {
			s := g.free(g.user)
			if s == nil || reported == 0 {
				return nil
			}
			for i := len(g.Reports) - 1; i >= 0; i-- {
				r := g.Reports[i].R
				if r.Reporter == a.Bech() && r.BlockNumber == reported {
					return [][]byte{g.tx(s, &disputetypes.MsgProposeDispute{Creator: s.Bech(), Report: &r, DisputeCategory: disputetypes.Minor, Fee: rawCoin(int64(r.Power) * 1_000_000 * 5 / 100)})}
				}
			}
			return nil
		}
		steps := []func() [][]byte{wait, wait, wait, wait, wait, wait,
			one(u, &stakingtypes.MsgDelegate{DelegatorAddress: u.Bech(), ValidatorAddress: small.ValAdr.String(), Amount: sdk.NewInt64Coin(Denom, 10_000_000)}),
			one(u, &reportertypes.MsgSelectReporter{SelectorAddress: u.Bech(), ReporterAddress: a.Bech()}),
			report, wait, down}
		for i := 0; i < 13; i++ {
			steps = append(steps, wait)
		}
		return append(steps, longGap, wait, wait, dispute, wait)
	}

	// raisedMinimum: governance raises the oracle's minimum stake to 2.5 tokens; a reporter with 2.2 tokens (enough whole
	// tokens, not enough stake) then tries a tipped query and the FIRST report of a deposit query that has no round yet
	fragments["raisedMinimum"] = func(g *Gen) []func() [][]byte {
		if len(g.c.W.Users) < 12 || len(g.spots) < 6 {
			return nil
		}
		u := g.c.W.Users[len(g.c.W.Users)-12]
		v0 := g.c.W.Vals[0]
		one := func(signer *Account, m ...sdk.Msg) func() [][]byte {
			return func() [][]byte {
				if g.tb.Used(signer) {
					return nil
				}
				return [][]byte{g.tx(signer, m...)}
			}
		}
		const id = 22
		dep := DepositValue([]byte{id, 4, 4}, g.c.W.Users[0].Bech(), new(big.Int).Mul(big.NewInt(2), big.NewInt(1e18)), big.NewInt(0))
		steps := []func() [][]byte{wait, wait, wait, wait, wait, wait}
		steps = append(steps, g.govSteps(&oracletypes.MsgUpdateParams{Authority: govAddr(), Params: oracletypes.Params{MinStakeAmount: math.NewInt(2_500_000)}})...)
		steps = append(steps,
			one(u, &stakingtypes.MsgDelegate{DelegatorAddress: u.Bech(), ValidatorAddress: v0.ValAdr.String(), Amount: sdk.NewInt64Coin(Denom, 2_200_000)}),
			one(u, &reportertypes.MsgCreateReporter{ReporterAddress: u.Bech(), CommissionRate: math.LegacyNewDecWithPrec(5, 2), MinTokensRequired: math.NewInt(1_000_000)}))
		for i := 0; i < 12; i++ {
			steps = append(steps, wait)
		}
		for i := 0; i < 2; i++ {
			steps = append(steps,
				func() [][]byte {
					if s := g.free(g.user); s != nil {
						return [][]byte{g.tx(s, &oracletypes.MsgTip{Tipper: s.Bech(), QueryData: g.spots[4], Amount: rawCoin(2_000_000)})}
					}
					return nil
				},
				one(u, &oracletypes.MsgSubmitValue{Creator: u.Bech(), QueryData: g.spots[4], Value: Uint256Value(big.NewInt(901))}),
				one(u, &oracletypes.MsgSubmitValue{Creator: u.Bech(), QueryData: BridgeQuery(true, id), Value: dep}),
				wait, wait)
		}
		return steps
	}

	// lowSnapshotLimit: governance lowers the per-block limit of user-requested attestations to 1; then several users
	// withdraw through the bridge and request attestations in ONE block, repeatedly (rejecting the surplus requests is
	// fine, failing the block is not)
	fragments["lowSnapshotLimit"] = func(g *Gen) []func() [][]byte {
		steps := []func() [][]byte{wait, wait, wait, wait, wait, wait}
		steps = append(steps, g.govSteps(&bridgetypes.MsgUpdateSnapshotLimit{Authority: govAddr(), Limit: 1})...)
		for i := 0; i < 12; i++ {
			steps = append(steps, wait)
		}
		burst := func() [][]byte {
			var out [][]byte
			for i := 0; i < 4; i++ {
				if s := g.free(g.user); s != nil {
					out = append(out, g.tx(s, &bridgetypes.MsgWithdrawTokens{Creator: s.Bech(), Recipient: hex.EncodeToString(g.user().Addr.Bytes()), Amount: rawCoin(int64(1_000_000 + i))}))
				}
			}
			qid := QueryID(g.spots[0])
			if agg, t, err := g.c.App.OracleKeeper.GetCurrentAggregateReport(g.c.CommittedCtx(), qid); err == nil && agg != nil {
				for i := 0; i < 3; i++ {
					if s := g.free(g.user); s != nil {
						out = append(out, g.tx(s, &bridgetypes.MsgRequestAttestations{Creator: s.Bech(), QueryId: hex.EncodeToString(qid), Timestamp: strconv.FormatInt(t.UnixMilli(), 10)}))
					}
				}
			}
			return out
		}
		for i := 0; i < 4; i++ {
			steps = append(steps, burst, wait, wait)
		}
		return steps
	}

	// twoUnbondings: a selector's stake backs a report, is then undelegated completely in two steps (two unbonding
	// entries), and the report is disputed (minor): the selector's share has to come out of the first entry only
	fragments["twoUnbondings"] = func(g *Gen) []func() [][]byte {
		n := g.c.W.Cfg.NumVals
		if n < 3 || len(g.c.W.Users) < 8 {
			return nil
		}
		u := g.c.W.Users[len(g.c.W.Users)-6]
		a, v := g.c.W.Vals[1].Op, g.c.W.Vals[0]
		one := func(signer *Account, m sdk.Msg) func() [][]byte {
			return func() [][]byte {
				if g.tb.Used(signer) {
					return nil
				}
				return [][]byte{g.tx(signer, m)}
			}
		}
		var reported uint64
		report := func() [][]byte {
			out := g.reportCycle(a, 4343)
			if out != nil {
				reported = uint64(g.c.Height + 1)
			}
			return out
		}
		dispute := func() [][]byte {
			s := g.free(g.user)
			if s == nil || reported == 0 {
				return nil
			}
			for i := len(g.Reports) - 1; i >= 0; i-- {
				r := g.Reports[i].R
				if r.Reporter == a.Bech() && r.BlockNumber == reported {
					full := int64(r.Power) * 1_000_000 * 5 / 100
					return [][]byte{g.tx(s, &disputetypes.MsgProposeDispute{Creator: s.Bech(), Report: &r, DisputeCategory: disputetypes.Minor, Fee: rawCoin(full)})}
				}
			}
			return nil
		}
		return []func() [][]byte{wait, wait, wait, wait, wait, wait,
			one(u, &stakingtypes.MsgDelegate{DelegatorAddress: u.Bech(), ValidatorAddress: v.ValAdr.String(), Amount: sdk.NewInt64Coin(Denom, 10_000_000)}),
			one(u, &reportertypes.MsgSelectReporter{SelectorAddress: u.Bech(), ReporterAddress: a.Bech()}),
			report, wait,
			one(u, &stakingtypes.MsgUndelegate{DelegatorAddress: u.Bech(), ValidatorAddress: v.ValAdr.String(), Amount: sdk.NewInt64Coin(Denom, 6_000_000)}),
			one(u, &stakingtypes.MsgUndelegate{DelegatorAddress: u.Bech(), ValidatorAddress: v.ValAdr.String(), Amount: sdk.NewInt64Coin(Denom, 4_000_000)}),
			wait, dispute, wait}
	}
}
