package sim

import (
	"math/big"
	"time"

	disputetypes "github.com/tellor-io/layer/x/dispute/types"
	oracletypes "github.com/tellor-io/layer/x/oracle/types"
	reportertypes "github.com/tellor-io/layer/x/reporter/types"

	sdk "github.com/cosmos/cosmos-sdk/types"
	stakingtypes "github.com/cosmos/cosmos-sdk/x/staking/types"
)

// Directed fragments added after the sixth round of seeded changes (see DESIGN.md section 7).

// lastReportOf returns the most recent stored report of a reporter (optionally for one query id).
func (g *Gen) lastReportOf(reporter string, qid []byte) (oracletypes.MicroReport, bool) {
	for i := len(g.Reports) - 1; i >= 0; i-- {
		r := g.Reports[i].R
		if r.Reporter == reporter && (qid == nil || string(r.QueryId) == string(qid)) {
			return r, true
		}
	}
	return oracletypes.MicroReport{}, false
}

func (g *Gen) reportCycle(op *Account, v int64) [][]byte {
	if g.tb.Used(op) {
		return nil
	}
	cq, err := g.c.App.OracleKeeper.GetCurrentQueryInCycleList(g.c.CommittedCtx())
	if err != nil {
		return nil
	}
	return [][]byte{g.tx(op, &oracletypes.MsgSubmitValue{Creator: op.Bech(), QueryData: cq, Value: Uint256Value(big.NewInt(v))})}
}

func init() {
	wait := func() [][]byte { return nil }

	// deepRounds: one dispute (warning) is carried through up to six rounds: nobody is asked to vote, the two days of
	// voting pass in one block gap, and the next round is proposed in that same block (its fee is offered in full, the
	// chain charges what the round costs)
	fragments["deepRounds"] = func(g *Gen) []func() [][]byte {
		n := g.c.W.Cfg.NumVals
		if n < 2 {
			return nil
		}
		rep := g.c.W.Vals[n-1].Op
		report := func() [][]byte { return g.reportCycle(rep, 777) }
		propose := func() [][]byte {
			r, ok := g.lastReportOf(rep.Bech(), nil)
			s := g.free(g.user)
			if !ok || s == nil {
				return nil
			}
			full := int64(r.Power) * 1_000_000 / 100
			return [][]byte{g.tx(s, &disputetypes.MsgProposeDispute{Creator: s.Bech(), Report: &r, DisputeCategory: disputetypes.Warning, Fee: rawCoin(full)})}
		}
		next := func() [][]byte {
			g.ForceGap = 48*time.Hour + time.Minute
			return propose()
		}
		steps := []func() [][]byte{wait, wait, wait, wait, wait, wait, report, report, report, wait, wait, propose}
		for i := 0; i < 6; i++ {
			steps = append(steps, next, wait)
		}
		return steps
	}

	// twinAggregates: the strongest reporter reports two tipped queries in ONE transaction, so both aggregates carry the
	// same micro height; both reports are then disputed (in full) and evidence naming them is added
	fragments["twinAggregates"] = func(g *Gen) []func() [][]byte {
		if len(g.spots) < 6 {
			return nil
		}
		rep := g.c.W.Vals[0].Op
		qa, qb := g.spots[4], g.spots[5]
		tip := func() [][]byte {
			var out [][]byte
			for _, q := range [][]byte{qa, qb} {
				if s := g.free(g.user); s != nil {
					out = append(out, g.tx(s, &oracletypes.MsgTip{Tipper: s.Bech(), QueryData: q, Amount: rawCoin(1_000_000)}))
				}
			}
			return out
		}
		report := func() [][]byte {
			if g.tb.Used(rep) {
				return nil
			}
			return [][]byte{g.tx(rep,
				&oracletypes.MsgSubmitValue{Creator: rep.Bech(), QueryData: qa, Value: Uint256Value(big.NewInt(1111))},
				&oracletypes.MsgSubmitValue{Creator: rep.Bech(), QueryData: qb, Value: Uint256Value(big.NewInt(2222))})}
		}
		dispute := func(q []byte) func() [][]byte {
			return func() [][]byte {
				r, ok := g.lastReportOf(rep.Bech(), QueryID(q))
				s := g.free(g.user)
				if !ok || s == nil {
					return nil
				}
				full := int64(r.Power) * 1_000_000 / 100
				return [][]byte{g.tx(s, &disputetypes.MsgProposeDispute{Creator: s.Bech(), Report: &r, DisputeCategory: disputetypes.Warning, Fee: rawCoin(full)})}
			}
		}
		unjail := func() [][]byte {
			if g.tb.Used(rep) {
				return nil
			}
			return [][]byte{g.tx(rep, &reportertypes.MsgUnjailReporter{ReporterAddress: rep.Bech()})}
		}
		return []func() [][]byte{wait, wait, wait, wait, wait, wait, tip, report, wait, wait, wait, wait, wait, wait, dispute(qa), unjail, dispute(qb), unjail, wait}
	}

	// switchAfterRebond: a selector's stake backs reporter A's report of a (2000-block) deposit round, is undelegated,
	// A reports again, the undelegation is cancelled, the selector switches to reporter B and B reports the same round
	fragments["switchAfterRebond"] = func(g *Gen) []func() [][]byte {
		n := g.c.W.Cfg.NumVals
		if n < 3 || len(g.c.W.Users) < 8 {
			return nil
		}
		const id = 21
		qd := BridgeQuery(true, id)
		val := DepositValue([]byte{id, 9, 9}, g.c.W.Users[1].Bech(), new(big.Int).Mul(big.NewInt(2), big.NewInt(1e18)), big.NewInt(0))
		u := g.c.W.Users[len(g.c.W.Users)-5]
		a, b, v := g.c.W.Vals[0].Op, g.c.W.Vals[1].Op, g.c.W.Vals[1]
		amt := sdk.NewInt64Coin(Denom, 7_000_000)
		one := func(signer *Account, m sdk.Msg) func() [][]byte {
			return func() [][]byte {
				if g.tb.Used(signer) {
					return nil
				}
				return [][]byte{g.tx(signer, m)}
			}
		}
		repA := one(a, &oracletypes.MsgSubmitValue{Creator: a.Bech(), QueryData: qd, Value: val})
		repB := one(b, &oracletypes.MsgSubmitValue{Creator: b.Bech(), QueryData: qd, Value: val})
		cancel := func() [][]byte {
			if g.tb.Used(u) {
				return nil
			}
			ubd, err := g.c.App.StakingKeeper.GetUnbondingDelegation(g.c.CommittedCtx(), u.Addr, v.ValAdr)
			if err != nil || len(ubd.Entries) == 0 {
				return nil
			}
			e := ubd.Entries[len(ubd.Entries)-1]
			return [][]byte{g.tx(u, &stakingtypes.MsgCancelUnbondingDelegation{DelegatorAddress: u.Bech(), ValidatorAddress: v.ValAdr.String(), Amount: sdk.NewCoin(Denom, e.Balance), CreationHeight: e.CreationHeight})}
		}
		return []func() [][]byte{wait, wait, wait, wait, wait, wait,
			one(u, &stakingtypes.MsgDelegate{DelegatorAddress: u.Bech(), ValidatorAddress: v.ValAdr.String(), Amount: amt}),
			one(u, &reportertypes.MsgSelectReporter{SelectorAddress: u.Bech(), ReporterAddress: a.Bech()}),
			repA, wait,
			one(u, &stakingtypes.MsgUndelegate{DelegatorAddress: u.Bech(), ValidatorAddress: v.ValAdr.String(), Amount: amt}),
			repA, wait, cancel,
			one(u, &reportertypes.MsgSwitchReporter{SelectorAddress: u.Bech(), ReporterAddress: b.Bech()}),
			repB, wait, repB, wait}
	}

	// rejail: two reports of one reporter; the first is disputed as minor (ten minutes of jail), the second a block later
	// as warning (release possible at once) while the reporter is still jailed
	fragments["rejail"] = func(g *Gen) []func() [][]byte {
		if g.c.W.Cfg.NumVals < 2 {
			return nil
		}
		a := g.c.W.Vals[1].Op
		var heights []uint64
		report := func() [][]byte {
			out := g.reportCycle(a, 5151)
			if out != nil {
				heights = append(heights, uint64(g.c.Height+1))
			}
			return out
		}
		dispute := func(k int, cat disputetypes.DisputeCategory, pct int64) func() [][]byte {
			return func() [][]byte {
				s := g.free(g.user)
				if s == nil || len(heights) <= k {
					return nil
				}
				for i := len(g.Reports) - 1; i >= 0; i-- {
					r := g.Reports[i].R
					if r.Reporter == a.Bech() && r.BlockNumber == heights[k] {
						full := int64(r.Power) * 1_000_000 * pct / 100
						return [][]byte{g.tx(s, &disputetypes.MsgProposeDispute{Creator: s.Bech(), Report: &r, DisputeCategory: cat, Fee: rawCoin(full)})}
					}
				}
				return nil
			}
		}
		return []func() [][]byte{wait, wait, wait, wait, wait, wait, report, report, report, wait, wait,
			dispute(0, disputetypes.Minor, 5), dispute(1, disputetypes.Warning, 1), wait}
	}

	// exactFivePercent: the bridge validator set is moved away from the set of the last checkpoint by EXACTLY five per
	// cent of that set's power (a delegation to one validator and an undelegation from another, so that total stake -
	// and the 5 % / 12 h admission rule - is not touched); tried four times in a history
	fragments["exactFivePercent"] = func(g *Gen) []func() [][]byte {
		exact := func() [][]byte {
			ctx := g.c.CommittedCtx()
			stored, err := g.c.App.BridgeKeeper.BridgeValset.Get(ctx)
			if err != nil {
				return nil
			}
			cur, err := g.c.App.BridgeKeeper.GetCurrentValidatorSetEVMCompatible(ctx)
			if err != nil || cur == nil {
				return nil
			}
			total, delta := int64(0), int64(0)
			diff := map[string]int64{} // current minus stored, per EVM address
			for _, v := range stored.BridgeValidatorSet {
				total += int64(v.Power)
				diff[string(v.EthereumAddress)] -= int64(v.Power)
			}
			for _, v := range cur.BridgeValidatorSet {
				diff[string(v.EthereumAddress)] += int64(v.Power)
			}
			for _, d := range diff {
				if d < 0 {
					d = -d
				}
				delta += d
			}
			target := (total + 19) / 20
			if total == 0 || target*1_000_000/total != 50_000 || delta >= target {
				return nil
			}
			need := target - delta
			up, down := need-need/2, need/2
			var out [][]byte
			var upVal, downVal *ValKeys
			for _, k := range g.c.W.Vals[:g.c.W.Cfg.NumVals] {
				d, in := diff[string(k.EVMAddress())]
				if !in {
					continue
				}
				if d >= 0 && upVal == nil {
					upVal = k
				} else if d <= 0 && downVal == nil {
					downVal = k
				}
			}
			if upVal == nil {
				return nil
			}
			if downVal == nil || g.tb.Used(downVal.Op) {
				up, down = need, 0
			}
			if s := g.free(g.user); s != nil && up > 0 {
				out = append(out, g.tx(s, &stakingtypes.MsgDelegate{DelegatorAddress: s.Bech(), ValidatorAddress: upVal.ValAdr.String(), Amount: sdk.NewInt64Coin(Denom, up*1_000_000)}))
			}
			if down > 0 {
				out = append(out, g.tx(downVal.Op, &stakingtypes.MsgUndelegate{DelegatorAddress: downVal.Op.Bech(), ValidatorAddress: downVal.ValAdr.String(), Amount: sdk.NewInt64Coin(Denom, down*1_000_000)}))
			}
			return out
		}
		steps := []func() [][]byte{wait, wait, wait, wait, wait, wait, wait, wait}
		for i := 0; i < 4; i++ {
			steps = append(steps, exact, wait, wait, wait, wait, wait)
		}
		return steps
	}

	// cyclelistMidRound: governance replaces the cycle list (by a list with the same queries) while two reporters report
	// the scheduled query in every block, so that whichever block the proposal executes in, the scheduled query's open,
	// untipped round already holds reports
	fragments["cyclelistMidRound"] = func(g *Gen) []func() [][]byte {
		steps := []func() [][]byte{wait, wait, wait, wait, wait, wait}
		cl := [][]byte{g.spots[0], g.spots[1], g.spots[2], g.spots[3]}
		steps = append(steps, g.govSteps(&oracletypes.MsgUpdateCyclelist{Authority: govAddr(), Cyclelist: cl})...)
		for i := 0; i < 40; i++ {
			i := i
			steps = append(steps, func() [][]byte {
				var out [][]byte
				for k := 0; k < 2 && k < g.c.W.Cfg.NumVals; k++ {
					out = append(out, g.reportCycle(g.c.W.Vals[(i+k)%g.c.W.Cfg.NumVals].Op, int64(3000+i))...)
				}
				return out
			})
		}
		return steps
	}

	// twoUnbondings: a selector's stake backs a report, is then undelegated completely in two steps (two unbonding
	// entries), and the report is disputed (minor): the selector's share has to come out of the first entry only
	fragments["twoUnbondings"] = func(g *Gen) []func() [][]byte {
		n := g.c.W.Cfg.NumVals
		if n < 3 || len(g.c.W.Users) < 8 {
			return nil
		}
		u := g.c.W.Users[len(g.c.W.Users)-6]
		a, v := g.c.W.Vals[1].Op, g.c.W.Vals[0]
		one := func(signer *Account, m sdk.Msg) func() [][]byte {
			return func() [][]byte {
				if g.tb.Used(signer) {
					return nil
				}
				return [][]byte{g.tx(signer, m)}
			}
		}
		var reported uint64
		report := func() [][]byte {
			out := g.reportCycle(a, 4343)
			if out != nil {
				reported = uint64(g.c.Height + 1)
			}
			return out
		}
		dispute := func() [][]byte {
			s := g.free(g.user)
			if s == nil || reported == 0 {
				return nil
			}
			for i := len(g.Reports) - 1; i >= 0; i-- {
				r := g.Reports[i].R
				if r.Reporter == a.Bech() && r.BlockNumber == reported {
					full := int64(r.Power) * 1_000_000 * 5 / 100
					return [][]byte{g.tx(s, &disputetypes.MsgProposeDispute{Creator: s.Bech(), Report: &r, DisputeCategory: disputetypes.Minor, Fee: rawCoin(full)})}
				}
			}
			return nil
		}
		return []func() [][]byte{wait, wait, wait, wait, wait, wait,
			one(u, &stakingtypes.MsgDelegate{DelegatorAddress: u.Bech(), ValidatorAddress: v.ValAdr.String(), Amount: sdk.NewInt64Coin(Denom, 10_000_000)}),
			one(u, &reportertypes.MsgSelectReporter{SelectorAddress: u.Bech(), ReporterAddress: a.Bech()}),
			report, wait,
			one(u, &stakingtypes.MsgUndelegate{DelegatorAddress: u.Bech(), ValidatorAddress: v.ValAdr.String(), Amount: sdk.NewInt64Coin(Denom, 6_000_000)}),
			one(u, &stakingtypes.MsgUndelegate{DelegatorAddress: u.Bech(), ValidatorAddress: v.ValAdr.String(), Amount: sdk.NewInt64Coin(Denom, 4_000_000)}),
			wait, dispute, wait}
	}
}
