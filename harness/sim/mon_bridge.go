package sim

import (
	"encoding/hex"
	"fmt"
	"math/big"
	"strings"
	"time"

	bridgetypes "github.com/tellor-io/layer/x/bridge/types"
	oracletypes "github.com/tellor-io/layer/x/oracle/types"

	"cosmossdk.io/collections"
	"cosmossdk.io/math"

	sdk "github.com/cosmos/cosmos-sdk/types"
)

// C14Monitor: bridge deposits mint once, conditionally; withdrawals burn what they attest (DESIGN.md §4 C14).
type C14Monitor struct {
	BaseMonitor
	st        *Stats
	bal       map[string]math.Int
	sup       math.Int
	claimed   map[uint64]bool
	lastWid   uint64
	haveWid   bool
	withdrawn map[string]bool // query id hex of withdrawal aggregates created by withdrawal txs
}

func NewC14Monitor(st *Stats) *C14Monitor {
	return &C14Monitor{st: st, claimed: map[uint64]bool{}, withdrawn: map[string]bool{}}
}
func (m *C14Monitor) Name() string { return "c14" }

func balances(c *Chain, ctx sdk.Context) map[string]math.Int {
	out := map[string]math.Int{}
	c.App.BankKeeper.IterateAllBalances(ctx, func(a sdk.AccAddress, coin sdk.Coin) bool {
		if coin.Denom == Denom {
			out[a.String()] = coin.Amount
		}
		return false
	})
	return out
}

func (m *C14Monitor) refresh(c *Chain, ctx sdk.Context) {
	m.bal = balances(c, ctx)
	m.sup = supply(c, ctx)
	if id, err := c.App.BridgeKeeper.WithdrawalId.Get(ctx); err == nil {
		m.lastWid, m.haveWid = id.Id, true
	}
}

func (m *C14Monitor) BeforeBlock(c *Chain, ctx sdk.Context)         { m.refresh(c, ctx) }
func (m *C14Monitor) BeforeTx(c *Chain, ctx sdk.Context, tx sdk.Tx) { m.refresh(c, ctx) }

func get(mp map[string]math.Int, k string) math.Int {
	if v, ok := mp[k]; ok {
		return v
	}
	return math.ZeroInt()
}

// thresholdAt: power threshold of the checkpoint in force at time ts (latest checkpoint with timestamp < ts or <= ts).
func thresholdAt(c *Chain, ctx sdk.Context, ts uint64, inclusive bool) (uint64, bool) {
	var best uint64
	var thr uint64
	found := false
	_ = c.App.BridgeKeeper.ValidatorCheckpointParamsMap.Walk(ctx, nil, func(k uint64, p bridgetypes.ValidatorCheckpointParams) (bool, error) {
		if (k < ts || (inclusive && k == ts)) && k >= best {
			best, thr, found = k, p.PowerThreshold, true
		}
		return false, nil
	})
	return thr, found
}

func (m *C14Monitor) AfterTx(c *Chain, ctx sdk.Context, tx sdk.Tx, ok bool) {
	if !ok {
		return
	}
	a := c.App
	post := balances(c, ctx)
	fee := math.ZeroInt()
	if ft, ok := tx.(sdk.FeeTx); ok {
		fee = ft.GetFee().AmountOf(Denom)
	}
	for _, msg := range tx.GetMsgs() {
		switch x := msg.(type) {
		case *bridgetypes.MsgClaimDepositsRequest:
			m.st.Count("c14.claim.evals")
			expect := map[string]math.Int{} // address -> expected credit
			minted := math.ZeroInt()
			for i, id := range x.DepositIds {
				qid := QueryID(BridgeQuery(true, id))
				// the aggregate the claim names, looked up independently of the keeper: the Indices[i]-th aggregate stored
				// under the deposit's OWN query id
				agg, ts, err := ownAggregateByIndex(c, ctx, qid, x.Indices[i])
				if err != nil || agg == nil {
					c.Violate("C14", "c14", "claim-accepted-without-aggregate-of-its-own-query", map[string]interface{}{"id": id, "index": x.Indices[i]})
					continue
				}
				age := ctx.BlockTime().Sub(ts)
				thrEx, okEx := thresholdAt(c, ctx, uint64(ts.UnixMilli()), false)
				thrIn, okIn := thresholdAt(c, ctx, uint64(ts.UnixMilli()), true)
				ageClass := "old"
				if age < 12*time.Hour+time.Second {
					ageClass = "12h+<1s"
				}
				m.st.Bucket("c14|claim|age=%s|dup-in-batch=%v|index=%d", ageClass, len(x.DepositIds) > 1, minInt(int(x.Indices[i]), 2))
				if agg.Flagged {
					c.Violate("C14", "c14", "claim-accepted-for-flagged-aggregate", map[string]interface{}{"id": id})
				}
				if age < 12*time.Hour {
					c.Violate("C14", "c14", "claim-accepted-before-12h", map[string]interface{}{"id": id, "age": age.String()})
				}
				if m.claimed[id] {
					c.Violate("C14", "c14", "deposit-claimed-twice", map[string]interface{}{"id": id})
				}
				m.claimed[id] = true
				if (!okEx || agg.ReporterPower < thrEx) && (!okIn || agg.ReporterPower < thrIn) {
					c.Violate("C14", "c14", "claim-accepted-below-two-thirds-threshold", map[string]interface{}{"id": id, "power": agg.ReporterPower, "threshold": thrEx})
				}
				amt, tip, rcpt, okd := DecodeDepositAmount(agg.AggregateValue)
				if !okd {
					c.Violate("C14", "c14", "claim-accepted-for-undecodable-value", map[string]interface{}{"id": id})
					continue
				}
				am := math.NewIntFromBigInt(new(big.Int).Quo(amt, big.NewInt(1e12)))
				tp := math.NewIntFromBigInt(new(big.Int).Quo(tip, big.NewInt(1e12)))
				minted = minted.Add(am)
				expect[x.Creator] = get(expect, x.Creator).Add(tp)
				expect[rcpt] = get(expect, rcpt).Add(am.Sub(tp))
			}
			if d := supply(c, ctx).Sub(m.sup); !d.Equal(minted) {
				c.Violate("C14", "c14", "minted-amount-not-reported-amount", map[string]interface{}{"delta_supply": d.String(), "reported": minted.String()})
			}
			for addr, want := range expect {
				got := get(post, addr).Sub(get(m.bal, addr))
				if addr == x.Creator {
					got = got.Add(fee)
				}
				if !got.Equal(want) {
					c.Violate("C14", "c14", "deposit-payout-wrong", map[string]interface{}{"address": addr, "got": got.String(), "want": want.String(), "is_claimer": addr == x.Creator})
				}
			}
		case *bridgetypes.MsgWithdrawTokens:
			m.st.Count("c14.withdraw.evals")
			id, err := a.BridgeKeeper.WithdrawalId.Get(ctx)
			if err != nil {
				c.Violate("C14", "c14", "withdrawal-without-id", nil)
				continue
			}
			wantID := uint64(1)
			if m.haveWid {
				wantID = m.lastWid + 1
			}
			m.st.Bucket("c14|withdraw|first=%v|amount<1TRB=%v", !m.haveWid, x.Amount.Amount.LT(math.NewInt(1_000_000)))
			if id.Id != wantID {
				c.Violate("C14", "c14", "withdrawal-id-not-previous-plus-one", map[string]interface{}{"got": id.Id, "want": wantID})
			}
			if d := supply(c, ctx).Sub(m.sup); !d.Equal(x.Amount.Amount.Neg()) {
				c.Violate("C14", "c14", "burned-amount-not-requested-amount", map[string]interface{}{"delta_supply": d.String(), "requested": x.Amount.Amount.String()})
			}
			if d := get(post, x.Creator).Sub(get(m.bal, x.Creator)).Add(fee); !d.Equal(x.Amount.Amount.Neg()) {
				c.Violate("C14", "c14", "sender-not-debited-by-amount", map[string]interface{}{"delta": d.String(), "requested": x.Amount.Amount.String()})
			}
			qid := QueryID(BridgeQuery(false, id.Id))
			agg, err := a.OracleKeeper.GetAggregateByTimestamp(ctx, qid, ctx.BlockTime())
			if err != nil {
				c.Violate("C14", "c14", "withdrawal-aggregate-missing", map[string]interface{}{"id": id.Id})
			} else {
				m.withdrawn[hex.EncodeToString(qid)] = true
				amt, tip, sender, okd := DecodeDepositAmount(agg.AggregateValue)
				bz, _ := hex.DecodeString(agg.AggregateValue)
				rcp, herr := hex.DecodeString(strings.TrimPrefix(x.Recipient, "0x"))
				if herr != nil { // (an empty recipient is hex for the zero address: the sender's own business)
					// nothing that could be encoded "as the recipient": such a request cannot be served
					c.Violate("C14", "c14", "withdrawal-accepted-although-the-recipient-is-not-a-hex-address", map[string]interface{}{"id": id.Id, "recipient": fmt.Sprintf("%q", x.Recipient)})
				}
				var rcp20 [20]byte
				if len(rcp) >= 20 {
					copy(rcp20[:], rcp[len(rcp)-20:])
				} else {
					copy(rcp20[20-len(rcp):], rcp)
				}
				if !okd || len(bz) < 32 || sender != x.Creator || amt.Cmp(x.Amount.Amount.BigInt()) != 0 || tip.Sign() != 0 || string(bz[12:32]) != string(rcp20[:]) {
					c.Violate("C14", "c14", "withdrawal-aggregate-does-not-encode-recipient-sender-amount", map[string]interface{}{"id": id.Id, "sender": sender, "amount": fmt.Sprint(amt)})
				}
			}
		case *oracletypes.MsgSubmitValue:
			if isB, toLayer := bridgeQueryKind(x.QueryData); isB && !toLayer {
				c.Violate("C14", "c14", "report-accepted-for-withdrawal-query", nil)
			}
		}
	}
	m.refresh(c, ctx)
}

// outcomes records, per deposit id, what happened to reports and claims (evidence only: shows which hostile
// encodings were refused at the report, refused at the claim, or claimed)
// ownAggregateByIndex walks the aggregates stored under exactly this query id (prefix range) and returns the n-th.
func ownAggregateByIndex(c *Chain, ctx sdk.Context, qid []byte, n uint64) (*oracletypes.Aggregate, time.Time, error) {
	var out *oracletypes.Aggregate
	var ts time.Time
	i := uint64(0)
	err := c.App.OracleKeeper.Aggregates.Walk(ctx, collections.NewPrefixedPairRange[[]byte, uint64](qid), func(k collections.Pair[[]byte, uint64], a oracletypes.Aggregate) (bool, error) {
		if string(k.K1()) != string(qid) || string(a.QueryId) != string(qid) {
			return false, nil
		}
		if i == n {
			cp := a
			out = &cp
			ts = time.UnixMilli(int64(k.K2()))
			return true, nil
		}
		i++
		return false, nil
	})
	if err != nil {
		return nil, ts, err
	}
	if out == nil {
		return nil, ts, fmt.Errorf("no aggregate %d under this query id", n)
	}
	return out, ts, nil
}

func (m *C14Monitor) outcomes(c *Chain, br *BlockResult) {
	for i, tr := range br.Res.TxResults {
		if i == 0 && br.Height > 1 {
			continue
		}
		tx, err := c.App.TxConfig().TxDecoder()(br.Txs[i])
		if err != nil {
			continue
		}
		for _, msg := range tx.GetMsgs() {
			reason := "ok"
			if tr.Code != 0 {
				reason = NormalizeErr(tr.Log)
				if j := strings.LastIndex(reason, "message index: N: "); j >= 0 {
					reason = reason[j+18:]
				}
				if len(reason) > 48 {
					reason = reason[:48]
				}
			}
			switch x := msg.(type) {
			case *bridgetypes.MsgClaimDepositsRequest:
				for _, id := range x.DepositIds {
					if id <= 14 {
						m.st.Bucket("c14|claim-attempt|deposit=%d|%s", id, reason)
					}
				}
			case *oracletypes.MsgSubmitValue:
				if isB, toLayer := bridgeQueryKind(x.QueryData); isB && toLayer {
					for id := uint64(5); id <= 14; id++ {
						if string(x.QueryData) == string(BridgeQuery(true, id)) {
							m.st.Bucket("c14|hostile-deposit-report|deposit=%d|%s", id, reason)
						}
					}
				}
			}
		}
	}
}

func (m *C14Monitor) AfterCommit(c *Chain, ctx sdk.Context, br *BlockResult) {
	m.outcomes(c, br)
	// no aggregate under a withdrawal query id unless a withdrawal transaction created it
	id, err := c.App.BridgeKeeper.WithdrawalId.Get(ctx)
	if err != nil {
		return
	}
	for i := uint64(1); i <= id.Id+2 && i < 400; i++ {
		qid := QueryID(BridgeQuery(false, i))
		n := 0
		_ = c.App.OracleKeeper.Aggregates.Walk(ctx, collections.NewPrefixedPairRange[[]byte, uint64](qid), func(k collections.Pair[[]byte, uint64], a oracletypes.Aggregate) (bool, error) {
			n++
			if len(a.Reporters) > 0 {
				c.Violate("C14", "c14", "withdrawal-aggregate-has-reporters", map[string]interface{}{"id": i})
			}
			return false, nil
		})
		if n > 0 && !m.withdrawn[hex.EncodeToString(qid)] {
			c.Violate("C14", "c14", "aggregate-under-withdrawal-query-not-from-a-withdrawal", map[string]interface{}{"id": i})
		}
		if n > 1 {
			c.Violate("C14", "c14", "several-aggregates-under-one-withdrawal-id", map[string]interface{}{"id": i, "n": n})
		}
	}
	m.st.Count("c14.withdrawal-queries.evals")
}
