package sim

import (
	"strings"

	abci "github.com/cometbft/cometbft/abci/types"
	sdk "github.com/cosmos/cosmos-sdk/types"
)

// PhaseStats records which automatic block phases did non-trivial work (the feature buckets of C02):
// it evaluates the C02 oracle (phase finished without error) for each of them.
type PhaseStats struct {
	BaseMonitor
	st *Stats
}

func NewPhaseStats(st *Stats) *PhaseStats { return &PhaseStats{st: st} }
func (m *PhaseStats) Name() string        { return "phasestats" }

func (m *PhaseStats) BeginBlockExit(c *Chain, ctx sdk.Context, err error) {
	m.st.Count("beginblock.evals")
	if err != nil {
		m.st.Bucket("beginblock|error")
	}
}

func (m *PhaseStats) EndBlockExit(c *Chain, ctx sdk.Context, err error) {
	m.st.Count("endblock.evals")
	if err != nil {
		m.st.Bucket("endblock|error")
		// model boundary: with no voting power left the consensus engine itself cannot continue;
		// that is the end of any proof-of-stake chain, not a failure of block processing
		var power int64
		vals, _ := c.App.StakingKeeper.GetAllValidators(ctx)
		for _, v := range vals {
			if v.IsBonded() {
				power += v.GetConsensusPower(sdk.DefaultPowerReduction)
			}
		}
		if power == 0 {
			c.Flags["valset-empty"] = true
		}
	}
}

func (m *PhaseStats) AfterCommit(c *Chain, ctx sdk.Context, br *BlockResult) {
	// block level events tell which module callbacks did real work
	seen := map[string]bool{}
	for _, e := range br.Res.Events {
		seen[e.Type] = true
		mode := ""
		for _, a := range e.Attributes {
			if a.Key == "mode" {
				mode = a.Value
			}
		}
		switch e.Type {
		case "aggregate_report", "rotating-cyclelist-with-next-query", "dispute_executed", "new_bridge_validator_set", "jailed_reporter",
			"complete_unbonding", "complete_redelegation", "active_proposal", "inactive_proposal", "slash", "liveness", "mint", "burn":
			m.st.Bucket("phase=%s|event=%s", mode, e.Type)
			m.st.Count("event:" + e.Type)
		}
	}
	if len(br.Res.ValidatorUpdates) > 0 {
		m.st.Bucket("valset-update|n=%d", len(br.Res.ValidatorUpdates))
	}
	for i, tr := range br.Res.TxResults {
		if i == 0 && br.Height > 1 {
			continue
		}
		m.txBucket(tr)
	}
}

func (m *PhaseStats) txBucket(tr *abci.ExecTxResult) {
	for _, e := range tr.Events {
		if e.Type == "message" {
			for _, a := range e.Attributes {
				if a.Key == "action" {
					ok := "ok"
					if tr.Code != 0 {
						ok = "fail"
					}
					m.st.Bucket("tx|%s|%s", a.Value[strings.LastIndex(a.Value, ".")+1:], ok)
				}
			}
		}
	}
}
