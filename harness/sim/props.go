package sim

func tierMap(q, t int) map[string]int { return map[string]int{"quick": q, "thorough": t} }

func init() {
	Register(&PropDef{
		ID: "C02",
		Profile: func(tier string, r *Rng) Profile {
			p := Profile{Name: "c02-hostile", MinTx: 2, MaxTx: 7, Equivocate: 0.01, Hostile: 0.25, VoteFault: 0.08, GapBig: 0.08, Gov: true, GovHalt: true}
			switch r.Pick(6) {
			case 5: // a snapshot limit of 1 and bursts of withdrawals / attestation requests in one block
				p.Fragments = []string{"lowSnapshotLimit"}
			case 4: // the team votes on a dispute and then hands its role on before the vote ends
				p.Fragments = []string{"teamRotation"}
			case 0: // time-based rewards flowing, two deposit rounds closing together
				p.Fragments = []string{"mintInit", "depositPair"}
			case 1:
				p.Fragments = []string{"mintInit", "depositExpiryTipped"}
			case 2:
				p.Fragments = []string{"mintInit"}
			case 3: // a minimum stake far below one token, a reporter whose stake is worth no power
				p.Fragments = []string{"dustReporter"}
			}
			return p
		},
		World: func(cfg *WorldCfg, r *Rng) {
			// an eighth of the cases (chosen by the case seed, no draw): only the smallest genesis validator runs with a
			// bridge key; the fragment lastBridgeValidatorLeaves then makes it leave the bonded set
			if cfg.Seed%8 == 5 {
				cfg.Keyless, cfg.KeyedVal = true, 3
				cfg.NumVals = 4
				cfg.ValStake = []int64{5000, 3000, 2000, 400, 1000, 1000}
			}
		},
		Monitors:         func(st *Stats) []Monitor { return []Monitor{NewPhaseStats(st)} },
		Cases:            tierMap(48, 160),
		Blocks:           tierMap(200, 600),
		DeathIsViolation: true,
	})
}

func init() {
	Register(&PropDef{
		ID: "C05",
		Profile: func(tier string, r *Rng) Profile {
			p := Profile{Name: "c05-stake", MinTx: 3, MaxTx: 8, Equivocate: 0.02, Downtime: 0.03, Hostile: 0.08, VoteFault: 0.03, GapBig: 0.06, Gov: false,
				W: map[string]float64{"delegate": 7, "undelegate": 5, "redelegate": 3, "cancelUnbond": 1.5, "proposeDispute": 6, "addFee": 4, "vote": 8,
					"withdrawFeeRefund": 4, "withdrawTip": 5, "createValidator": 1, "privileged": 0.1, "registerSpec": 0.1, "requestAttest": 0.2, "withdrawTokens": 0.3, "claimDeposits": 0.1}}
			// a third of the cases: stake that backed a report is undelegated AND redelegated (or redelegated to two
			// validators) before the report is disputed
			switch r.Pick(6) {
			case 0:
				p.Fragments = []string{"movedStakeUnbondRedelegate"}
			case 1:
				p.Fragments = []string{"movedStakeTwoDestinations"}
			}
			return p
		},
		Monitors: func(st *Stats) []Monitor { return []Monitor{NewC05Monitor(st)} },
		Cases:    tierMap(32, 128),
		Blocks:   tierMap(250, 600),
	})
}

func init() {
	Register(&PropDef{
		ID: "C03",
		Profile: func(tier string, r *Rng) Profile {
			return Profile{Name: "c03-supply", MinTx: 3, MaxTx: 8, Hostile: 0.12, NoFaults: true, GapBig: 0.07, Gov: true,
				W:         map[string]float64{"govProposal": 2.5, "govVote": 8, "tip": 10, "withdrawTokens": 4, "claimDeposits": 2, "withdrawFeeRefund": 4, "proposeDispute": 4, "vote": 7},
				Fragments: c03Fragments(r)}
		},
		Monitors: func(st *Stats) []Monitor { return []Monitor{NewC03Monitor(st)} },
		Cases:    tierMap(48, 160),
		Blocks:   tierMap(300, 600),
	})
	Register(&PropDef{
		ID: "C04",
		Profile: func(tier string, r *Rng) Profile {
			return Profile{Name: "c04-escrow", MinTx: 3, MaxTx: 8, Hostile: 0.15, VoteFault: 0.02, GapBig: 0.06, Gov: true,
				W: map[string]float64{"tip": 12, "submit": 22, "withdrawTip": 7, "createReporter": 5, "selectReporter": 6, "switchReporter": 2.5, "delegate": 6, "proposeDispute": 3.5, "vote": 7,
					"withdrawFeeRefund": 4, "claimReward": 5, "govProposal": 1, "govVote": 4},
				Fragments: c04Fragments(r)}
		},
		Monitors: func(st *Stats) []Monitor { return []Monitor{NewC04Monitor(st)} },
		Cases:    tierMap(48, 160),
		Blocks:   tierMap(300, 600),
	})
}

// c03Fragments: minting in every case; a quarter of the cases also claim bridge deposits, incl. hostile report values
func c03Fragments(r *Rng) []string {
	if r.Chance(0.25) {
		return []string{"mintInit", "deposit2", "depositTipAboveAmount", "depositSubUnit"}
	}
	return []string{"mintInit"}
}

// c04Fragments: minting in every case; some cases add deposit rounds that close together or get reports in their last block
func c04Fragments(r *Rng) []string {
	switch r.Pick(5) {
	case 0:
		return []string{"mintInit", "depositExpiryTipped"}
	case 1:
		return []string{"mintInit", "depositPair"}
	case 2:
		return []string{"mintInit", "deposit2", "deposit3"} // tipped deposits, claimed by a stranger or by their own recipient
	}
	return []string{"mintInit"}
}

// c14Fragments: the three well-formed deposits plus two of the hostile ones, chosen per case
func c14Fragments(r *Rng) []string {
	hostile := []string{"depositTipAboveAmount", "depositTipEqualsAmount", "depositBadRecipient", "depositForeignPrefix", "depositSubUnit", "depositHuge", "depositTruncated", "depositZero", "depositModuleRecipient", "depositWrap64"}
	i := r.Pick(len(hostile))
	j := (i + 1 + r.Pick(len(hostile)-1)) % len(hostile)
	return []string{"deposit1", hostile[i], "deposit2", hostile[j], "deposit3"}
}

func disputeProfile(name string) Profile {
	return Profile{Name: name, MinTx: 3, MaxTx: 8, Hostile: 0.12, VoteFault: 0.0, GapBig: 0.10, Gov: false, Equivocate: 0.01, Downtime: 0.02,
		W: map[string]float64{"proposeDispute": 7, "addFee": 5, "vote": 14, "withdrawFeeRefund": 5, "claimReward": 5, "addEvidence": 1.5, "tip": 8, "submit": 18,
			"delegate": 5, "undelegate": 3, "redelegate": 2, "selectReporter": 4, "createReporter": 4, "unjailReporter": 3, "privileged": 0.1, "registerSpec": 0.1,
			"requestAttest": 0.2, "withdrawTokens": 0.3, "claimDeposits": 0.1, "createValidator": 0.3}}
}

func disputeFinish(c *Chain, g *Gen, mons []Monitor) {
	for _, m := range mons {
		if dm, ok := m.(*DisputeMonitor); ok {
			settlementPhase(c, g, dm)
		}
	}
}

func init() {
	for _, id := range []string{"C11", "C12", "C13"} {
		id := id
		Register(&PropDef{
			ID: id,
			Profile: func(tier string, r *Rng) Profile {
				p := disputeProfile("dispute-" + id)
				// directed fragments in a third of the cases: a dispute carried through six rounds (C12, C13), a backer
				// who undelegated everything in two steps before the dispute (C11)
				if r.Chance(0.34) {
					p.Fragments = map[string][]string{"C11": {[]string{"twoUnbondings", "movedStakeTwoDestinations", "movedStakeUnbondRedelegate", "unbondedValidatorDispute"}[r.Pick(4)]}, "C12": {"deepRounds"}, "C13": {"deepRounds"}}[id]
				}
				return p
			},
			Monitors: func(st *Stats) []Monitor { return []Monitor{NewDisputeMonitor(st)} },
			Cases:    tierMap(48, 160),
			Blocks:   tierMap(300, 600),
			Finish:   disputeFinish,
			// a tally / execution / expiry step that fails in BeginBlock did not follow the lifecycle
			DeathModules: []string{"dispute"},
		})
	}
}

func init() {
	// C04 on dispute-centred histories with the settlement phase (every payer and voter claims twice): the escrow
	// relations of the dispute account are exercised where the plain C04 profile has few disputes
	Register(&PropDef{
		ID:       "C04dispute",
		Profile:  func(tier string, r *Rng) Profile { return disputeProfile("dispute-C04") },
		Monitors: func(st *Stats) []Monitor { return []Monitor{NewC04Monitor(st), NewDisputeMonitor(st)} },
		Cases:    tierMap(24, 96),
		Blocks:   tierMap(300, 600),
		Finish:   disputeFinish,
	})
}

func init() {
	oracleProfile := func(name string) Profile {
		return Profile{Name: name, MinTx: 3, MaxTx: 9, Hostile: 0.15, VoteFault: 0.02, GapBig: 0.04, Gov: true,
			W: map[string]float64{"tip": 14, "submit": 30, "registerSpec": 1.5, "govProposal": 1.2, "govVote": 5, "proposeDispute": 3, "addFee": 2, "addEvidence": 2.5, "vote": 3,
				"withdrawTokens": 3, "requestAttest": 3, "createReporter": 4, "selectReporter": 4, "unjailReporter": 3}}
	}
	Register(&PropDef{ID: "C07", Profile: func(tier string, r *Rng) Profile {
		p := oracleProfile("c07-rounds")
		if r.Chance(0.34) {
			p.Fragments = []string{[]string{"depositExpiry", "depositExpiryTipped"}[r.Pick(2)]} // reports exactly at the end of a 2000-block deposit window
		} else if r.Chance(0.3) {
			p.Fragments = []string{"cyclelistMidRound"} // the cycle list is replaced while the scheduled round holds reports
		} else if r.Chance(0.4) {
			p.Fragments = []string{"raisedMinimum"} // a minimum stake that is not a whole number of tokens, a reporter just below it
		}
		return p
	},
		Monitors: func(st *Stats) []Monitor { return []Monitor{NewC07Monitor(st)} }, Cases: tierMap(48, 160), Blocks: tierMap(300, 800), DeathModules: []string{"oracle"}})
	// C06 on the chain: rounds of median and mode queries closing in the same blocks, judged by the definition
	Register(&PropDef{ID: "C06chain", Profile: func(tier string, r *Rng) Profile {
		p := oracleProfile("c06-chain")
		p.Fragments = []string{"modeSpec", "modeRounds"}
		if r.Pick(3) == 0 {
			// a deposit round that is reported again exactly at its expiry height (a new round is opened while the old one
			// still waits for this block's aggregation), followed by ordinary rounds (after C06-j: round ids handed out twice)
			p.Fragments = []string{"depositExpiry", "modeSpec", "modeRounds"}
		}
		p.W["submit"], p.W["tip"] = 40, 18
		return p
	},
		Monitors: func(st *Stats) []Monitor { return []Monitor{NewC06ChainMonitor(st)} }, Cases: tierMap(24, 96), Blocks: tierMap(300, 600), DeathModules: []string{"oracle"}})
	Register(&PropDef{ID: "C08", Profile: func(tier string, r *Rng) Profile {
		p := oracleProfile("c08-history")
		if r.Chance(0.4) {
			p.Fragments = []string{"twinAggregates"} // two aggregates with one micro height, both determining reports disputed
		}
		return p
	},
		Monitors: func(st *Stats) []Monitor { return []Monitor{NewC08Monitor(st)} }, Cases: tierMap(40, 128), Blocks: tierMap(300, 800)})
}

func init() {
	Register(&PropDef{ID: "C10",
		Profile: func(tier string, r *Rng) Profile {
			p := Profile{Name: "c10-power", MinTx: 3, MaxTx: 9, Equivocate: 0.01, Downtime: 0.03, Hostile: 0.1, VoteFault: 0.06, GapBig: 0.06, Gov: true,
				W: map[string]float64{"submit": 30, "tip": 8, "delegate": 10, "undelegate": 6, "redelegate": 5, "createReporter": 6, "selectReporter": 8, "switchReporter": 12, "removeSelector": 2,
					"unjailReporter": 4, "proposeDispute": 3, "vote": 3, "createValidator": 1.5, "unjailVal": 1.5, "govProposal": 1, "govVote": 4, "cancelUnbond": 1.5}}
			if r.Chance(0.3) {
				p.Fragments = []string{"switchAfterRebond"} // stake leaves and re-enters the bonded set between a report and a switch
			} else if r.Chance(0.3) {
				p.Fragments = []string{"rejail"} // a second, shorter sentence while the first is running
			}
			return p
		},
		World: func(cfg *WorldCfg, r *Rng) {
			cfg.MaxValidators = uint32(3 + r.Pick(4))
			cfg.NumVals = 5
			cfg.ExtraVals = 3
		},
		Monitors: func(st *Stats) []Monitor { return []Monitor{NewC10Monitor(st)} }, Cases: tierMap(48, 160), Blocks: tierMap(300, 800)})
	Register(&PropDef{ID: "C14",
		Profile: func(tier string, r *Rng) Profile {
			return Profile{Name: "c14-bridge", MinTx: 2, MaxTx: 6, Hostile: 0.2, VoteFault: 0.0, GapBig: 0.05, Gov: false,
				W:         map[string]float64{"withdrawTokens": 10, "claimDeposits": 8, "submit": 14, "tip": 5, "proposeDispute": 3, "addEvidence": 1, "vote": 2, "undelegate": 0.5, "redelegate": 0.5, "delegate": 2},
				Fragments: c14Fragments(r)}
		},
		Monitors: func(st *Stats) []Monitor { return []Monitor{NewC14Monitor(st)} }, Cases: tierMap(32, 96), Blocks: tierMap(160, 400)})
}

func init() {
	bridgeProfile := func(name string) Profile {
		return Profile{Name: name, MinTx: 2, MaxTx: 7, Hostile: 0.1, VoteFault: 0.12, GapBig: 0.22, Gov: false,
			W: map[string]float64{"delegate": 14, "undelegate": 9, "redelegate": 5, "createValidator": 3, "unjailVal": 4, "cancelUnbond": 2, "submit": 10, "tip": 5, "requestAttest": 6,
				"withdrawTokens": 3, "proposeDispute": 2, "vote": 2, "multiStake": 2, "privileged": 0.1, "registerSpec": 0.1}}
	}
	world := func(cfg *WorldCfg, r *Rng) {
		cfg.NumVals = 3 + r.Pick(4)
		cfg.ExtraVals = 3
		cfg.MaxValidators = uint32(cfg.NumVals + r.Pick(3))
		cfg.ValStake = [][]int64{{5000, 3000, 2000, 2000, 1000, 1000}, {1000, 1000, 1000, 1000, 1000, 1000}, {900, 300, 200, 100, 50, 20}, {2, 2, 1, 1, 1, 1}}[r.Pick(4)]
		if r.Chance(0.1) {
			// a larger set: 12-24 validators, many of them with equal power
			cfg.NumVals = 12 + r.Pick(13)
			cfg.MaxValidators = uint32(cfg.NumVals + r.Pick(3))
			cfg.ValStake = []int64{500, 500, 300, 300, 300, 200, 100, 100, 100, 100, 50, 50}
		}
	}
	Register(&PropDef{ID: "C16", Profile: func(tier string, r *Rng) Profile {
		p := bridgeProfile("c16-valset")
		if r.Chance(0.4) {
			p.Fragments = []string{"exactFivePercent"} // the boundary of "shifted by at least 5 %"
		}
		return p
	}, World: world,
		Monitors: func(st *Stats) []Monitor { return []Monitor{NewC16Monitor(st)} }, Cases: tierMap(40, 128), Blocks: tierMap(300, 800)})
	Register(&PropDef{ID: "C17", Profile: func(tier string, r *Rng) Profile { return bridgeProfile("c17-proposals") }, World: world,
		Monitors: func(st *Stats) []Monitor { return []Monitor{NewC17Monitor(st)} }, Cases: tierMap(32, 96), Blocks: tierMap(250, 600),
		// what an honest proposer builds from a valid extended commit is accepted by every honest validator: a history
		// that ends because PrepareProposal failed or ProcessProposal rejected the honest proposal violates C17
		// ... and so does one that ends because the PreBlocker (the handler that writes the accepted vote-extension data
		// into state) fails or panics on a proposal that was accepted (added after C17-j)
		DeathModules: []string{"prepare", "process", "preblock"},
		Opts:         func() AppOpts { return AppOpts{PanicLog: &PanicLog{}} },
		Setup:        func(c *Chain, st *Stats, r *Rng) { NewProposalLab(st, r, 6).Attach(c) },
		Finish:       func(c *Chain, g *Gen, mons []Monitor) { finalizeUndecodable(c) }})
}

func init() {
	Register(&PropDef{ID: "C18chain",
		Profile: func(tier string, r *Rng) Profile {
			return Profile{Name: "c18-staking", MinTx: 3, MaxTx: 8, Hostile: 0.1, VoteFault: 0.02, GapBig: 0.12,
				W: map[string]float64{"delegate": 16, "undelegate": 10, "redelegate": 6, "cancelUnbond": 3, "multiStake": 12, "createValidator": 2, "proposeDispute": 2, "vote": 1, "submit": 8, "tip": 3}}
		},
		Monitors: func(st *Stats) []Monitor { return []Monitor{NewC18ChainMonitor(st)} }, Cases: tierMap(32, 96), Blocks: tierMap(250, 600)})
	Register(&PropDef{ID: "C09chain",
		Profile: func(tier string, r *Rng) Profile {
			return Profile{Name: "c09-tbr", MinTx: 3, MaxTx: 8, Hostile: 0.1, GapBig: 0.04, Gov: true, Fragments: []string{"mintInit", "twinReportsStakeChange", "offParOrigins", "depositPair"},
				W: map[string]float64{"submit": 30, "tip": 12, "createReporter": 5, "selectReporter": 6, "delegate": 8, "unjailVal": 5, "govVote": 5, "govProposal": 0.6, "registerSpec": 1}}
		},
		Monitors: func(st *Stats) []Monitor { return []Monitor{NewC09ChainMonitor(st)} }, Cases: tierMap(32, 96), Blocks: tierMap(250, 600)})
}

func init() {
	Register(&PropDef{ID: "C01",
		Profile: func(tier string, r *Rng) Profile {
			return Profile{Name: "c01-ties", MinTx: 4, MaxTx: 10, Hostile: 0.1, VoteFault: 0.04, GapBig: 0.05, Gov: true, Fragments: []string{"modeSpec", "mintInit"},
				W: map[string]float64{"tipCustom": 10, "submitCustom": 40, "submit": 14, "tip": 6, "proposeDispute": 4, "vote": 8, "addFee": 2, "delegate": 5, "undelegate": 3, "createReporter": 4,
					"selectReporter": 5, "withdrawTip": 3, "unjailReporter": 4, "govVote": 4, "createValidator": 1, "specThenFail": 1.2, "phantom": 1.2}}
		},
		World: func(cfg *WorldCfg, r *Rng) {
			cfg.ValStake = []int64{1000, 1000, 1000, 1000, 1000, 1000} // equal powers: ties
			cfg.NumVals = 4 + r.Pick(2)
			cfg.MaxValidators = 6
		},
		Cases: tierMap(16, 48), Blocks: tierMap(150, 400)})
}

func init() {
	Register(&PropDef{ID: "C19",
		Profile: func(tier string, r *Rng) Profile {
			frs := []string{"mintInit"}
			if r.Pick(3) == 0 { // a reporter with more selectors than a lowered cap, selectors with stake on a jailed validator
				frs = append(frs, "overfullReporter")
			}
			return Profile{Name: "c19-authority", MinTx: 3, MaxTx: 9, Hostile: 0.2, VoteFault: 0.02, GapBig: 0.06, Gov: true, Fragments: frs,
				W: map[string]float64{"privileged": 8, "updateTeam": 3, "registerSpec": 4, "removeSelector": 5, "withdrawFeeRefund": 5, "claimReward": 4, "withdrawTip": 5, "unjailReporter": 4,
					"selectReporter": 5, "switchReporter": 4, "proposeDispute": 5, "addFee": 4, "vote": 6, "govProposal": 1.5, "govVote": 5, "send": 3, "delegate": 5, "undelegate": 3, "redelegate": 2, "multiStake": 3, "submit": 20}}
		},
		World: func(cfg *WorldCfg, r *Rng) {
			if r.Chance(0.3) {
				// few validator slots, many validators: selectors with more delegations than the validator cap
				cfg.MaxValidators = uint32(3 + r.Pick(3))
				cfg.NumVals = 5
				cfg.ExtraVals = 3
			}
		},
		Monitors: func(st *Stats) []Monitor { return []Monitor{NewC19Monitor(st)} }, Cases: tierMap(48, 160), Blocks: tierMap(250, 600)})
}
