package sim

import (
	"bytes"
	"time"

	"cosmossdk.io/math"

	reportertypes "github.com/tellor-io/layer/x/reporter/types"

	sdk "github.com/cosmos/cosmos-sdk/types"
	stakingtypes "github.com/cosmos/cosmos-sdk/x/staking/types"
)

// Directed fragments added in the fourth session (regression of the older seeded changes against the final harness,
// round 10 of seeded changes).

func init() {
	wait := func() [][]byte { return nil }

	// overfullReporter: a user becomes a reporter with a minimum of 2 tokens; four users whose stake is spread over two
	// or three validators select it; governance then lowers the selector cap below the number of selectors the reporter
	// already has, and one of the validators those users delegated to (the one with the lowest operator address among
	// the smaller validators) is jailed for downtime. Third parties then ask for the removal of every one of the four:
	//   s1  jailed 3 + later 2            bonded = the minimum exactly      -> must stay
	//   s2  jailed 3 + later 1.999999     bonded one unit below the minimum -> may be removed
	//   s3  jailed 5                      bonded = 0                         -> may be removed
	//   s4  first 1 + jailed 3 + later 1  bonded = the minimum, on both sides of the jailed validator -> must stay
	// (C19 decides; regression: C19-e stopped counting at the first delegation to a non-bonded validator)
	fragments["overfullReporter"] = func(g *Gen) []func() [][]byte {
		n := g.c.W.Cfg.NumVals
		if n < 4 || len(g.c.W.Users) < 8 {
			return nil
		}
		vals := g.c.W.Vals[:n]
		// the validator that goes down: lowest operator address among all but the largest
		victim := vals[1]
		for _, v := range vals[2:] {
			if bytes.Compare(v.ValAdr, victim.ValAdr) < 0 {
				victim = v
			}
		}
		var later, first *ValKeys // a validator sorting after the victim; one sorting before it (or, failing that, another later one)
		for _, v := range vals {
			if v == victim {
				continue
			}
			if bytes.Compare(v.ValAdr, victim.ValAdr) > 0 && later == nil {
				later = v
			} else if first == nil || bytes.Compare(v.ValAdr, victim.ValAdr) < 0 {
				first = v
			}
		}
		if later == nil || first == nil {
			return nil
		}
		us := g.c.W.Users
		rep := us[len(us)-4]
		sels := []*Account{us[len(us)-5], us[len(us)-6], us[len(us)-7], us[len(us)-8]}
		coin := func(x int64) sdk.Coin { return sdk.NewInt64Coin(Denom, x) }
		del := func(u *Account, v *ValKeys, x int64) sdk.Msg {
			return &stakingtypes.MsgDelegate{DelegatorAddress: u.Bech(), ValidatorAddress: v.ValAdr.String(), Amount: coin(x)}
		}
		delegate := func() [][]byte {
			var out [][]byte
			add := func(u *Account, m ...sdk.Msg) {
				if t := g.tx(u, m...); t != nil {
					out = append(out, t)
				}
			}
			add(rep, del(rep, vals[0], 5_000_000))
			add(sels[0], del(sels[0], victim, 3_000_000), del(sels[0], later, 2_000_000))
			add(sels[1], del(sels[1], victim, 3_000_000), del(sels[1], later, 1_999_999))
			add(sels[2], del(sels[2], victim, 5_000_000))
			add(sels[3], del(sels[3], first, 1_000_000), del(sels[3], victim, 3_000_000), del(sels[3], later, 1_000_000))
			return out
		}
		create := func() [][]byte {
			if t := g.tx(rep, &reportertypes.MsgCreateReporter{ReporterAddress: rep.Bech(), CommissionRate: math.LegacyNewDecWithPrec(5, 2), MinTokensRequired: math.NewInt(2_000_000)}); t != nil {
				return [][]byte{t}
			}
			return nil
		}
		sel := func() [][]byte {
			var out [][]byte
			for _, u := range sels {
				var m sdk.Msg = &reportertypes.MsgSelectReporter{SelectorAddress: u.Bech(), ReporterAddress: rep.Bech()}
				if _, err := g.c.App.ReporterKeeper.Selectors.Get(g.c.CommittedCtx(), u.Addr.Bytes()); err == nil {
					m = &reportertypes.MsgSwitchReporter{SelectorAddress: u.Bech(), ReporterAddress: rep.Bech()}
				}
				if t := g.tx(u, m); t != nil {
					out = append(out, t)
				}
			}
			return out
		}
		down := func() [][]byte {
			g.downVal, g.downUntil, g.downDone = string(victim.ConsAdr), g.c.Height+10, true
			return nil
		}
		gap := func() [][]byte { g.ForceGap = 40 * time.Second; return nil }
		remove := func() [][]byte {
			var out [][]byte
			for _, u := range sels {
				if s := g.free(g.user); s != nil && s != u {
					out = append(out, g.tx(s, &reportertypes.MsgRemoveSelector{AnyAddress: s.Bech(), SelectorAddress: u.Bech()}))
				}
			}
			return out
		}
		steps := []func() [][]byte{wait, wait, wait, wait, wait, wait, delegate, create, sel, sel}
		steps = append(steps, g.govSteps(&reportertypes.MsgUpdateParams{Authority: govAddr(), Params: reportertypes.Params{MinCommissionRate: math.LegacyZeroDec(), MinTrb: math.NewInt(1_000_000), MaxSelectors: 2}})...)
		steps = append(steps, down, gap)
		for i := 0; i < 13; i++ {
			steps = append(steps, wait)
		}
		return append(steps, remove, wait, remove, wait, wait, remove)
	}
	// lastBridgeValidatorLeaves (keyless worlds only, queued by RunCase): every validator but one runs without a bridge
	// key, so the bridge validator set consists of that one validator; its operator then undelegates its whole
	// self-delegation (less than 5 % of the bonded stake, so the stake-change limit lets it pass) and the validator
	// leaves the bonded set: from then on no bonded validator has an EVM address
	fragments["lastBridgeValidatorLeaves"] = func(g *Gen) []func() [][]byte {
		if !g.c.W.Cfg.Keyless || g.c.W.Cfg.KeyedVal >= len(g.c.W.Vals) {
			return nil
		}
		v := g.c.W.Vals[g.c.W.Cfg.KeyedVal]
		leave := func() [][]byte {
			ctx := g.c.CommittedCtx()
			del, err := g.c.App.StakingKeeper.GetDelegation(ctx, v.Op.Addr, v.ValAdr)
			if err != nil {
				return nil
			}
			val, err := g.c.App.StakingKeeper.GetValidator(ctx, v.ValAdr)
			if err != nil {
				return nil
			}
			amt := val.TokensFromShares(del.Shares).TruncateInt()
			if !amt.IsPositive() {
				return nil
			}
			if t := g.tx(v.Op, &stakingtypes.MsgUndelegate{DelegatorAddress: v.Op.Bech(), ValidatorAddress: v.ValAdr.String(), Amount: sdk.NewCoin(Denom, amt)}); t != nil {
				return [][]byte{t}
			}
			return nil
		}
		return []func() [][]byte{wait, wait, wait, wait, wait, wait, wait, wait, leave, wait, leave, wait, wait}
	}
}
