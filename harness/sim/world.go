// Package sim drives the real tellor layer application (app.App) in-process through ABCI,
// the way CometBFT would, and lets monitors observe every phase of block execution.
package sim

import (
	"crypto/sha256"
	"encoding/binary"
	"encoding/json"
	"fmt"
	"math/rand"
	"os"
	"sort"
	"time"

	abci "github.com/cometbft/cometbft/abci/types"
	cmtproto "github.com/cometbft/cometbft/proto/tendermint/types"
	cmttypes "github.com/cometbft/cometbft/types"
	dbm "github.com/cosmos/cosmos-db"
	"github.com/tellor-io/layer/app"
	_ "github.com/tellor-io/layer/app/config"
	disputetypes "github.com/tellor-io/layer/x/dispute/types"

	"cosmossdk.io/log"
	"cosmossdk.io/math"

	"github.com/cosmos/cosmos-sdk/baseapp"
	codectypes "github.com/cosmos/cosmos-sdk/codec/types"
	cryptocodec "github.com/cosmos/cosmos-sdk/crypto/codec"
	"github.com/cosmos/cosmos-sdk/crypto/keys/ed25519"
	"github.com/cosmos/cosmos-sdk/crypto/keys/secp256k1"
	simtestutil "github.com/cosmos/cosmos-sdk/testutil/sims"
	sdk "github.com/cosmos/cosmos-sdk/types"
	authtypes "github.com/cosmos/cosmos-sdk/x/auth/types"
	banktypes "github.com/cosmos/cosmos-sdk/x/bank/types"
	govv1 "github.com/cosmos/cosmos-sdk/x/gov/types/v1"
	slashingtypes "github.com/cosmos/cosmos-sdk/x/slashing/types"
	stakingtypes "github.com/cosmos/cosmos-sdk/x/staking/types"
)

const (
	ChainID = "layer-verif-1"
	Denom   = "loya"
)

func init() {
	sdk.DefaultBondDenom = Denom
}

// Account is a key the harness owns.
type Account struct {
	Name string
	Priv *secp256k1.PrivKey
	Addr sdk.AccAddress
}

func (a *Account) Bech() string { return a.Addr.String() }

// ValKeys are the three keys of a validator: consensus (ed25519), operator (secp256k1 account) and
// the "EVM" key used for bridge signatures (in a real node the operator key in the keyring signs those).
type ValKeys struct {
	Idx     int
	Cons    *ed25519.PrivKey
	Op      *Account
	ConsAdr sdk.ConsAddress
	ValAdr  sdk.ValAddress
}

// WorldCfg fixes the shape of a world. Everything else is derived from Seed.
type WorldCfg struct {
	Seed          int64
	NumVals       int     // genesis validators
	ExtraVals     int     // keys prepared for validators created later by tx
	NumUsers      int     // funded user accounts
	MaxValidators uint32  // staking param
	ValStake      []int64 // self delegation in whole TRB per genesis validator (cycled)
	UserBalance   int64   // loya
	VotingPeriod  time.Duration
	UnbondingTime time.Duration
	GenesisTime   time.Time
	MaxSelectors  uint64
	DBBackend     string // "" (memdb) | "goleveldb"
	Home          string // if empty, a temp dir
	MinGasPrice   string // node-local config, must not matter
	// Keyless: every validator except the one with index KeyedVal runs without a bridge key (the real ExtendVote then
	// sends an empty extension: a supported mode of operation), so only that one ever registers an EVM address
	Keyless  bool
	KeyedVal int
}

func DefaultWorldCfg(seed int64) WorldCfg {
	return WorldCfg{
		Seed:          seed,
		NumVals:       4,
		ExtraVals:     2,
		NumUsers:      12,
		MaxValidators: 6,
		ValStake:      []int64{5000, 3000, 2000, 2000, 1000, 1000, 500, 500},
		UserBalance:   20_000_000_000,
		VotingPeriod:  30 * time.Second,
		UnbondingTime: 21 * 24 * time.Hour,
		GenesisTime:   time.Date(2025, 1, 1, 0, 0, 0, 0, time.UTC),
		MaxSelectors:  100,
	}
}

// World holds the keys and the genesis of a chain; it is a pure function of its config.
type World struct {
	Cfg   WorldCfg
	Vals  []*ValKeys // genesis + extra
	Users []*Account
	Team  *Account
	// Poor: accounts funded with exactly one / two transaction fees (not in AllAccounts, so nothing else picks them):
	// their vote is the vote of an address with no balance, stake or tips left
	Poor     []*Account
	ByAddr   map[string]*Account // bech32 -> account (users, team, operators)
	GenState map[string]json.RawMessage
}

func seedBytes(seed int64, kind string, i int) []byte {
	h := sha256.New()
	var b [8]byte
	binary.BigEndian.PutUint64(b[:], uint64(seed))
	h.Write(b[:])
	h.Write([]byte(kind))
	binary.BigEndian.PutUint64(b[:], uint64(i))
	h.Write(b[:])
	return h.Sum(nil)
}

func newAccount(seed int64, kind string, i int) *Account {
	p := secp256k1.GenPrivKeyFromSecret(seedBytes(seed, kind, i))
	return &Account{Name: fmt.Sprintf("%s%d", kind, i), Priv: p, Addr: sdk.AccAddress(p.PubKey().Address())}
}

func NewWorld(cfg WorldCfg) *World {
	// a genesis with more bonded validators than MaxValidators is inconsistent (x/staking never demotes the surplus):
	// the surplus keys become validators that can be created later by transaction
	if uint32(cfg.NumVals) > cfg.MaxValidators {
		cfg.ExtraVals += cfg.NumVals - int(cfg.MaxValidators)
		cfg.NumVals = int(cfg.MaxValidators)
	}
	w := &World{Cfg: cfg, ByAddr: map[string]*Account{}}
	for i := 0; i < cfg.NumVals+cfg.ExtraVals; i++ {
		cons := ed25519.GenPrivKeyFromSecret(seedBytes(cfg.Seed, "cons", i))
		op := newAccount(cfg.Seed, "val", i)
		w.Vals = append(w.Vals, &ValKeys{Idx: i, Cons: cons, Op: op, ConsAdr: sdk.ConsAddress(cons.PubKey().Address()), ValAdr: sdk.ValAddress(op.Addr)})
		w.ByAddr[op.Bech()] = op
	}
	for i := 0; i < cfg.NumUsers; i++ {
		u := newAccount(cfg.Seed, "user", i)
		w.Users = append(w.Users, u)
		w.ByAddr[u.Bech()] = u
	}
	w.Team = newAccount(cfg.Seed, "team", 0)
	w.ByAddr[w.Team.Bech()] = w.Team
	for i := 0; i < 3; i++ {
		pa := newAccount(cfg.Seed, "poor", i)
		w.Poor = append(w.Poor, pa)
		w.ByAddr[pa.Bech()] = pa
	}
	return w
}

// AllAccounts returns every account the harness can sign for, in a fixed order.
func (w *World) AllAccounts() []*Account {
	out := []*Account{}
	for _, v := range w.Vals {
		out = append(out, v.Op)
	}
	out = append(out, w.Users...)
	out = append(out, w.Team)
	return out
}

// AppOpts are node-local options; the properties say they must not influence consensus state.
type AppOpts struct {
	DB          dbm.DB
	Home        string
	MinGasPrice string
	IAVLCache   int
	Pruning     string
	PanicLog    *PanicLog // when set, the app logs through a logger that records recovered handler panics
}

// NewApp builds the real application with observation wrappers installed before the store is sealed.
func NewApp(o AppOpts, hooks *Hooks) (*app.App, func()) {
	cleanup := func() {}
	home := o.Home
	if home == "" {
		d, err := os.MkdirTemp("", "vh-home-")
		if err != nil {
			panic(err)
		}
		home = d
		cleanup = func() { os.RemoveAll(d) }
	}
	db := o.DB
	if db == nil {
		db = newLeakDB(dbm.NewMemDB())
	}
	opts := simtestutil.AppOptionsMap{
		"home": home,
	}
	if o.MinGasPrice != "" {
		opts["minimum-gas-prices"] = o.MinGasPrice
	}
	if o.IAVLCache != 0 {
		opts["iavl-cache-size"] = o.IAVLCache
	}
	if o.Pruning != "" {
		opts["pruning"] = o.Pruning
	}
	bopts := []func(*baseapp.BaseApp){baseapp.SetChainID(ChainID)}
	if o.MinGasPrice != "" {
		bopts = append(bopts, baseapp.SetMinGasPrices(o.MinGasPrice))
	}
	var logger log.Logger = log.NewNopLogger()
	if o.PanicLog != nil {
		logger = capLogger{o.PanicLog}
	}
	a := app.New(logger, db, nil, false, opts, bopts...)
	if hooks != nil {
		hooks.install(a)
	}
	if err := a.LoadLatestVersion(); err != nil {
		panic(err)
	}
	return a, cleanup
}

// Genesis builds the application genesis for the world (own builder: several bonded validators with
// self delegation, signing infos, bond denom loya, short gov voting period, team key owned by harness).
func (w *World) Genesis(a *app.App) map[string]json.RawMessage {
	cdc := a.AppCodec()
	gs := a.BasicModuleManager.DefaultGenesis(cdc)
	cfg := w.Cfg

	// auth
	var accs []authtypes.GenesisAccount
	var balances []banktypes.Balance
	total := math.ZeroInt()
	for _, acc := range w.AllAccounts() {
		accs = append(accs, authtypes.NewBaseAccount(acc.Addr, nil, 0, 0))
		bal := math.NewInt(cfg.UserBalance)
		balances = append(balances, banktypes.Balance{Address: acc.Bech(), Coins: sdk.NewCoins(sdk.NewCoin(Denom, bal))})
		total = total.Add(bal)
	}
	for i, acc := range w.Poor {
		accs = append(accs, authtypes.NewBaseAccount(acc.Addr, nil, 0, 0))
		bal := math.NewInt(int64(DefaultFee) * int64(1+i%2))
		balances = append(balances, banktypes.Balance{Address: acc.Bech(), Coins: sdk.NewCoins(sdk.NewCoin(Denom, bal))})
		total = total.Add(bal)
	}
	authGen := authtypes.NewGenesisState(authtypes.DefaultParams(), accs)
	gs[authtypes.ModuleName] = cdc.MustMarshalJSON(authGen)

	// staking
	var sg stakingtypes.GenesisState
	cdc.MustUnmarshalJSON(gs[stakingtypes.ModuleName], &sg)
	sg.Params.BondDenom = Denom
	sg.Params.MaxValidators = cfg.MaxValidators
	sg.Params.UnbondingTime = cfg.UnbondingTime
	bonded := math.ZeroInt()
	var signing []slashingtypes.SigningInfo
	for i := 0; i < cfg.NumVals; i++ {
		v := w.Vals[i]
		stake := math.NewInt(cfg.ValStake[i%len(cfg.ValStake)]).MulRaw(1_000_000)
		pkAny, err := codectypes.NewAnyWithValue(v.Cons.PubKey())
		if err != nil {
			panic(err)
		}
		val := stakingtypes.Validator{
			OperatorAddress:   v.ValAdr.String(),
			ConsensusPubkey:   pkAny,
			Jailed:            false,
			Status:            stakingtypes.Bonded,
			Tokens:            stake,
			DelegatorShares:   math.LegacyNewDecFromInt(stake),
			Description:       stakingtypes.Description{Moniker: v.Op.Name},
			UnbondingHeight:   0,
			UnbondingTime:     time.Unix(0, 0).UTC(),
			Commission:        stakingtypes.NewCommission(math.LegacyNewDecWithPrec(5, 2), math.LegacyOneDec(), math.LegacyNewDecWithPrec(1, 2)),
			MinSelfDelegation: math.OneInt(),
		}
		sg.Validators = append(sg.Validators, val)
		sg.Delegations = append(sg.Delegations, stakingtypes.NewDelegation(v.Op.Bech(), v.ValAdr.String(), math.LegacyNewDecFromInt(stake)))
		bonded = bonded.Add(stake)
		signing = append(signing, slashingtypes.SigningInfo{
			Address:              v.ConsAdr.String(),
			ValidatorSigningInfo: slashingtypes.NewValidatorSigningInfo(v.ConsAdr, 0, 0, time.Unix(0, 0).UTC(), false, 0),
		})
	}
	gs[stakingtypes.ModuleName] = cdc.MustMarshalJSON(&sg)
	balances = append(balances, banktypes.Balance{
		Address: authtypes.NewModuleAddress(stakingtypes.BondedPoolName).String(),
		Coins:   sdk.NewCoins(sdk.NewCoin(Denom, bonded)),
	})
	total = total.Add(bonded)

	// slashing
	var slg slashingtypes.GenesisState
	cdc.MustUnmarshalJSON(gs[slashingtypes.ModuleName], &slg)
	slg.SigningInfos = signing
	// a short liveness window so that a validator that misses a handful of blocks really is slashed for downtime (1 %),
	// jailed for a minute and can come back: the only way a BONDED validator gets shares worth less than one token
	slg.Params.SignedBlocksWindow = 12
	slg.Params.MinSignedPerWindow = math.LegacyNewDecWithPrec(5, 1)
	slg.Params.DowntimeJailDuration = time.Minute
	gs[slashingtypes.ModuleName] = cdc.MustMarshalJSON(&slg)

	// bank
	var bg banktypes.GenesisState
	cdc.MustUnmarshalJSON(gs[banktypes.ModuleName], &bg)
	sort.Slice(balances, func(i, j int) bool { return balances[i].Address < balances[j].Address })
	bg.Balances = balances
	bg.Supply = sdk.NewCoins(sdk.NewCoin(Denom, total))
	gs[banktypes.ModuleName] = cdc.MustMarshalJSON(&bg)

	// gov: short voting period so real proposals pass inside a history
	var gg govv1.GenesisState
	cdc.MustUnmarshalJSON(gs["gov"], &gg)
	vp := cfg.VotingPeriod
	gg.Params.VotingPeriod = &vp
	gg.Params.ExpeditedVotingPeriod = func() *time.Duration { d := vp / 2; return &d }()
	md := 7 * 24 * time.Hour
	gg.Params.MaxDepositPeriod = &md
	gs["gov"] = cdc.MustMarshalJSON(&gg)

	// dispute: team address is a key the harness owns
	var dg disputetypes.GenesisState
	cdc.MustUnmarshalJSON(gs[disputetypes.ModuleName], &dg)
	dg.Params.TeamAddress = w.Team.Addr.Bytes()
	gs[disputetypes.ModuleName] = cdc.MustMarshalJSON(&dg)

	w.GenState = gs
	return gs
}

func (w *World) ConsensusParams() *cmtproto.ConsensusParams {
	cp := cmttypes.DefaultConsensusParams().ToProto()
	cp.Block.MaxGas = -1
	cp.Abci = &cmtproto.ABCIParams{VoteExtensionsEnableHeight: 1}
	return &cp
}

// InitChainRequest is the request CometBFT would send for this world.
func (w *World) InitChainRequest(a *app.App) *abci.RequestInitChain {
	gs := w.Genesis(a)
	bz, err := json.Marshal(gs)
	if err != nil {
		panic(err)
	}
	return &abci.RequestInitChain{
		Time:            w.Cfg.GenesisTime,
		ChainId:         ChainID,
		ConsensusParams: w.ConsensusParams(),
		Validators:      nil,
		AppStateBytes:   bz,
		InitialHeight:   1,
	}
}

func init() {
	// make sure amino/proto know the key types used in genesis
	_ = cryptocodec.RegisterInterfaces
}

// Rng is the only source of randomness of the harness.
type Rng struct{ *rand.Rand }

func NewRng(seed int64, stream string) *Rng {
	b := seedBytes(seed, "rng:"+stream, 0)
	return &Rng{rand.New(rand.NewSource(int64(binary.BigEndian.Uint64(b[:8]))))}
}

func (r *Rng) Pick(n int) int {
	if n <= 0 {
		return 0
	}
	return r.Intn(n)
}
func (r *Rng) Chance(p float64) bool { return r.Float64() < p }
