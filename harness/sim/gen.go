package sim

import (
	"encoding/hex"
	"fmt"
	"math/big"
	"sort"
	"strconv"
	"strings"
	"time"

	abci "github.com/cometbft/cometbft/abci/types"
	cmtproto "github.com/cometbft/cometbft/proto/tendermint/types"
	bridgetypes "github.com/tellor-io/layer/x/bridge/types"
	disputetypes "github.com/tellor-io/layer/x/dispute/types"
	minttypes "github.com/tellor-io/layer/x/mint/types"
	oracletypes "github.com/tellor-io/layer/x/oracle/types"
	registrytypes "github.com/tellor-io/layer/x/registry/types"
	reportertypes "github.com/tellor-io/layer/x/reporter/types"

	"cosmossdk.io/collections"
	"cosmossdk.io/math"

	codectypes "github.com/cosmos/cosmos-sdk/codec/types"
	sdk "github.com/cosmos/cosmos-sdk/types"
	authtypes "github.com/cosmos/cosmos-sdk/x/auth/types"
	banktypes "github.com/cosmos/cosmos-sdk/x/bank/types"
	govtypes "github.com/cosmos/cosmos-sdk/x/gov/types"
	govv1 "github.com/cosmos/cosmos-sdk/x/gov/types/v1"
	slashingtypes "github.com/cosmos/cosmos-sdk/x/slashing/types"
	stakingtypes "github.com/cosmos/cosmos-sdk/x/staking/types"
)

// Profile tunes the workload towards the states a property talks about.
type Profile struct {
	Name       string
	W          map[string]float64 // op weights; missing => default
	MinTx      int
	MaxTx      int
	Hostile    float64 // probability of a hostile spelling / boundary value per field
	VoteFault  float64 // probability per validator per block of an absent/nil/garbage vote (never >1/3 power at once)
	GapBig     float64 // probability of a long time gap
	Gov        bool    // allow governance proposals
	GovHalt    bool    // allow governance changes known to stop the chain (cycle list shrink etc.)
	Deposits   bool    // run the deposit fast-forward fragment
	NoFaults   bool    // never let validators miss votes (C03 scope)
	Fragments  []string
	Downtime   float64 // per-block probability (once per history) that a small validator stops voting for 9 blocks (downtime slash 1 %, jail; the generator unjails it later)
	Equivocate float64 // per-block probability (once per history) that the weakest validators' double sign is reported: slashing makes share prices differ from 1
	SubMs      float64 // <0: block times stay on whole milliseconds; otherwise about a third of the blocks get a sub-millisecond part
}

var defaultWeights = map[string]float64{
	"tip": 8, "submit": 16, "createReporter": 3, "selectReporter": 3, "switchReporter": 1.5, "removeSelector": 0.7,
	"unjailReporter": 1.5, "withdrawTip": 3, "delegate": 4, "undelegate": 2.5, "redelegate": 1.5, "cancelUnbond": 0.7,
	"createValidator": 0.5, "send": 1.5, "proposeDispute": 3, "addFee": 2, "vote": 6, "withdrawFeeRefund": 2.5,
	"claimReward": 2.5, "addEvidence": 0.8, "updateTeam": 0.3, "withdrawTokens": 1.5, "claimDeposits": 1, "requestAttest": 1,
	"tipCustom": 0, "submitCustom": 0, "specThenFail": 0, "phantom": 0, "registerSpec": 0.6, "govProposal": 0.8, "govVote": 2, "privileged": 0.6, "unjailVal": 0.5, "multiStake": 0.8,
}

func (p Profile) weight(op string) float64 {
	if w, ok := p.W[op]; ok {
		return w
	}
	return defaultWeights[op]
}

// StoredReport is a micro report the chain really stored (learned by observation).
type StoredReport struct {
	R      oracletypes.MicroReport
	MetaID uint64
}

// Gen produces block plans from committed state + PRNG. It also is a Monitor so that it learns outcomes.
type Gen struct {
	BaseMonitor
	c   *Chain
	r   *Rng
	jr  *Rng // separate stream for sub-millisecond block-time jitter (does not perturb the op stream)
	tb  *TxBuilder
	P   Profile
	Ops map[string]int // attempted
	Ok  map[string]int // accepted (by msg type url)
	Rej map[string]int

	Reports   []StoredReport
	Phantoms  [][]byte // signed transactions that are never put into a block: replicas that "serve simulations" simulate them
	ghosts    int
	spots     [][]byte // known spot queries
	customQ   [][]byte
	depositID uint64
	proposals []uint64
	fragQueue []func() [][]byte
	lastMsgs  []sdk.Msg
	extraVals int
	Samples   []string
	// set by fragment steps
	equivocated bool
	downVal     string // consensus address of the validator that is down
	downUntil   int64
	downDone    bool
	ForceGap    time.Duration // gap of the block being planned
	FastForward int           // empty blocks (1 s apart) the runner inserts after this block
}

func NewGen(c *Chain, seed int64, p Profile) *Gen {
	g := &Gen{c: c, r: NewRng(seed, "gen:"+p.Name), jr: NewRng(seed, "jitter:"+p.Name), tb: NewTxBuilder(c), P: p, Ops: map[string]int{}, Ok: map[string]int{}, Rej: map[string]int{}}
	for _, pr := range [][2]string{{"eth", "usd"}, {"btc", "usd"}, {"trb", "usd"}, {"sol", "usd"}, {"atom", "usd"}, {"eth", "btc"}} {
		g.spots = append(g.spots, SpotPriceQuery(pr[0], pr[1]))
	}
	return g
}

func (g *Gen) Name() string { return "gen" }

// AfterTx learns which messages were accepted and remembers stored reports.
func (g *Gen) AfterTx(c *Chain, ctx sdk.Context, tx sdk.Tx, ok bool) {
	for _, m := range tx.GetMsgs() {
		url := sdk.MsgTypeURL(m)
		if ok {
			g.Ok[url]++
		} else {
			g.Rej[url]++
		}
		if !ok {
			continue
		}
		if sv, is := m.(*oracletypes.MsgSubmitValue); is {
			qid := QueryID(sv.QueryData)
			q, err := c.App.OracleKeeper.CurrentQuery(ctx, qid)
			if err != nil {
				continue
			}
			rep, err := c.App.OracleKeeper.Reports.Get(ctx, collections.Join3(qid, sdk.MustAccAddressFromBech32(sv.Creator).Bytes(), q.Id))
			if err != nil {
				continue
			}
			g.Reports = append(g.Reports, StoredReport{R: rep, MetaID: q.Id})
			if len(g.Reports) > 400 {
				g.Reports = g.Reports[len(g.Reports)-400:]
			}
		}
	}
}

func (g *Gen) acct() *Account {
	all := g.c.W.AllAccounts()
	return all[g.r.Pick(len(all))]
}

func (g *Gen) user() *Account { return g.c.W.Users[g.r.Pick(len(g.c.W.Users))] }

func (g *Gen) free(try func() *Account) *Account {
	for i := 0; i < 8; i++ {
		a := try()
		if a != nil && !g.tb.Used(a) {
			return a
		}
	}
	return nil
}

var gapsSmall = []time.Duration{time.Millisecond, time.Second, 2 * time.Second, 6 * time.Second, 6 * time.Second, 30 * time.Second}
var gapsBig = []time.Duration{
	10 * time.Minute, 12*time.Hour - time.Millisecond, 12 * time.Hour, 12*time.Hour + time.Millisecond,
	24*time.Hour - time.Millisecond, 24 * time.Hour, 24*time.Hour + time.Millisecond, 2*24*time.Hour + time.Millisecond, 2 * 24 * time.Hour,
	3 * 24 * time.Hour, 3*24*time.Hour + time.Millisecond, 14*24*time.Hour - time.Second, 14*24*time.Hour + 2*time.Second, 21*24*time.Hour + time.Millisecond, 30 * 24 * time.Hour,
}

func (g *Gen) amount(balanceHint int64) int64 {
	pool := []int64{1, 2, 3, 49, 50, 51, 99, 100, 101, 9_999, 10_000, 10_001, 123_457, 1_000_000, 1_000_001, 3_333_333, 25_000_000, 100_000_000, 1_000_000_000}
	if g.r.Chance(g.P.Hostile * 0.3) {
		pool = append(pool, 0, balanceHint, balanceHint+1, 1<<62)
	}
	return pool[g.r.Pick(len(pool))]
}

// view is a snapshot of committed state the generator uses to pick sensible arguments.
type view struct {
	ctx        sdk.Context
	reporters  []sdk.AccAddress
	repMeta    map[string]reportertypes.OracleReporter
	selectors  map[string]sdk.AccAddress // selector -> reporter
	bondedVals []stakingtypes.Validator
	allVals    []stakingtypes.Validator
	disputes   []disputetypes.Dispute
	cycleQ     []byte
	queries    []oracletypes.QueryMeta
}

func (g *Gen) view() *view {
	a := g.c.App
	ctx := g.c.CommittedCtx()
	v := &view{ctx: ctx, repMeta: map[string]reportertypes.OracleReporter{}, selectors: map[string]sdk.AccAddress{}}
	_ = a.ReporterKeeper.Reporters.Walk(ctx, nil, func(k []byte, r reportertypes.OracleReporter) (bool, error) {
		v.reporters = append(v.reporters, sdk.AccAddress(k))
		v.repMeta[sdk.AccAddress(k).String()] = r
		return false, nil
	})
	_ = a.ReporterKeeper.Selectors.Walk(ctx, nil, func(k []byte, s reportertypes.Selection) (bool, error) {
		v.selectors[sdk.AccAddress(k).String()] = sdk.AccAddress(s.Reporter)
		return false, nil
	})
	vals, _ := a.StakingKeeper.GetAllValidators(ctx)
	v.allVals = vals
	for _, x := range vals {
		if x.IsBonded() {
			v.bondedVals = append(v.bondedVals, x)
		}
	}
	_ = a.DisputeKeeper.Disputes.Walk(ctx, nil, func(k uint64, d disputetypes.Dispute) (bool, error) {
		v.disputes = append(v.disputes, d)
		return false, nil
	})
	if len(v.disputes) > 30 {
		v.disputes = v.disputes[len(v.disputes)-30:]
	}
	if q, err := safeCycle(g.c, ctx); err == nil {
		v.cycleQ = q
	}
	_ = a.OracleKeeper.Query.Walk(ctx, nil, func(k collections.Pair[[]byte, uint64], q oracletypes.QueryMeta) (bool, error) {
		v.queries = append(v.queries, q)
		return len(v.queries) > 60, nil
	})
	return v
}

func safeCycle(c *Chain, ctx sdk.Context) (q []byte, err error) {
	defer func() {
		if r := recover(); r != nil {
			err = fmt.Errorf("panic: %v", r)
		}
	}()
	return c.App.OracleKeeper.GetCurrentQueryInCycleList(ctx)
}

func (g *Gen) valAddr(v *view, bondedOnly bool) string {
	src := v.allVals
	if bondedOnly || g.r.Chance(0.7) {
		src = v.bondedVals
	}
	if len(src) == 0 {
		return sdk.ValAddress(g.acct().Addr).String()
	}
	return src[g.r.Pick(len(src))].OperatorAddress
}

func (g *Gen) byAddr(a sdk.AccAddress) *Account { return g.c.W.ByAddr[a.String()] }

// Plan assembles the next block.
func (g *Gen) Plan() BlockPlan {
	p := BlockPlan{}
	if g.r.Chance(g.P.GapBig) {
		p.Gap = gapsBig[g.r.Pick(len(gapsBig))]
	} else {
		p.Gap = gapsSmall[g.r.Pick(len(gapsSmall))]
	}
	h := g.c.Height + 1
	v := g.view()
	n := g.P.MinTx
	if g.P.MaxTx > g.P.MinTx {
		n += g.r.Pick(g.P.MaxTx - g.P.MinTx + 1)
	}
	var txs [][]byte
	// queued fragment steps go first
	if len(g.fragQueue) > 0 {
		step := g.fragQueue[0]
		g.fragQueue = g.fragQueue[1:]
		txs = append(txs, step()...)
	}
	// bootstrap: make sure reporters exist early
	if h >= 2 && h <= 4 {
		for i, val := range g.c.W.Vals[:g.c.W.Cfg.NumVals] {
			if int(h)%3 == i%3 && !g.tb.Used(val.Op) {
				if _, ok := v.selectors[val.Op.Bech()]; !ok {
					txs = append(txs, g.tb.Tx(val.Op, &reportertypes.MsgCreateReporter{ReporterAddress: val.Op.Bech(), CommissionRate: g.commission(), MinTokensRequired: math.NewInt(1_000_000)}))
				}
			}
		}
	}
	names := make([]string, 0, len(defaultWeights))
	for k := range defaultWeights {
		names = append(names, k)
	}
	sort.Strings(names)
	total := 0.0
	for _, k := range names {
		total += g.P.weight(k)
	}
	for i := 0; i < n && total > 0; i++ {
		x := g.r.Float64() * total
		op := names[len(names)-1]
		for _, k := range names {
			x -= g.P.weight(k)
			if x < 0 {
				op = k
				break
			}
		}
		g.Ops[op]++
		if tx := g.op(op, v); tx != nil {
			txs = append(txs, tx)
			if len(g.Samples) < 40 && g.lastMsgs != nil {
				g.Samples = append(g.Samples, fmt.Sprintf("h=%d %s", h, describe(g.lastMsgs)))
			}
		}
	}
	if g.ForceGap != 0 {
		p.Gap = g.ForceGap
		g.ForceGap = 0
	}
	// double-sign evidence against one of the two weakest validators of a set of at least four (x/evidence slashes 5 %,
	// jails and tombstones it): from then on its delegators' shares are worth less than one token each
	if g.P.Equivocate > 0 && !g.equivocated && h > 25 && g.jr.Chance(g.P.Equivocate) {
		if vs := g.c.Valset(h); len(vs) >= 4 {
			sorted := append([]CometVal{}, vs...)
			sort.Slice(sorted, func(i, j int) bool { return sorted[i].Power < sorted[j].Power })
			victim := sorted[g.jr.Pick(2)]
			var total int64
			for _, v := range vs {
				total += v.Power
			}
			if victim.Power*3 < total {
				p.Misbehavior = []abci.Misbehavior{{Type: abci.MisbehaviorType_DUPLICATE_VOTE, Validator: abci.Validator{Address: victim.Keys.ConsAdr, Power: victim.Power},
					Height: int64(h) - 1, Time: g.c.Time, TotalVotingPower: total}}
				g.equivocated = true
			}
		}
	}
	// CometBFT block times are at least 1 ms apart but carry nanoseconds: a third of the blocks get a sub-millisecond part
	if g.P.SubMs >= 0 && g.jr.Chance(0.35) {
		p.Gap += time.Duration(g.jr.Pick(1_000_000))
		if g.jr.Chance(0.2) {
			p.Gap = p.Gap/time.Millisecond*time.Millisecond + 999_999 // just below the next millisecond
		}
	}
	out := txs[:0]
	for _, t := range txs {
		if t != nil {
			out = append(out, t)
		}
	}
	p.Txs = out
	if !g.P.NoFaults && (g.P.VoteFault > 0 || g.P.Downtime > 0 || g.downVal != "") {
		p.Votes = g.votePlan()
	}
	return p
}

func describe(msgs []sdk.Msg) string {
	s := ""
	for _, m := range msgs {
		str := fmt.Sprintf("%s%v", sdk.MsgTypeURL(m), m)
		if len(str) > 260 {
			str = str[:260] + "…"
		}
		s += str + ";"
	}
	return s
}

// votePlan lets a minority of voting power misbehave: absent, nil, or commit with a hostile extension.
func (g *Gen) votePlan() func(c *Chain, v CometVal, honest []byte) VoteSpec {
	faultBudget := int64(0)
	var total int64
	for _, v := range g.c.Valset(g.c.Height + 1) {
		total += v.Power
	}
	h := g.c.Height + 1
	if g.P.Downtime > 0 && !g.downDone && h > 12 && g.jr.Chance(g.P.Downtime) {
		vs := g.c.Valset(h)
		if len(vs) >= 3 {
			sorted := append([]CometVal{}, vs...)
			sort.Slice(sorted, func(i, j int) bool { return sorted[i].Power < sorted[j].Power })
			if victim := sorted[g.jr.Pick(2)]; victim.Power*4 < total {
				g.downVal, g.downUntil, g.downDone = string(victim.Keys.ConsAdr), h+9, true
			}
		}
	}
	return func(c *Chain, v CometVal, honest []byte) VoteSpec {
		if g.downVal == string(v.Keys.ConsAdr) && h <= g.downUntil && (faultBudget+v.Power)*3 < total {
			faultBudget += v.Power
			return VoteSpec{Flag: cmtproto.BlockIDFlagAbsent}
		}
		// a validator that has not registered its EVM address yet may send an extension that does not even decode
		// (VerifyVoteExtension lets it through): new validators are the weakest, so this is usually the LAST commit vote
		if g.P.VoteFault > 0 && (faultBudget+v.Power)*3 < total && g.jr.Chance(0.4) {
			if _, err := c.App.BridgeKeeper.GetEVMAddressByOperator(c.CommittedCtx(), v.Keys.ValAdr.String()); err != nil {
				faultBudget += v.Power
				return VoteSpec{Flag: cmtproto.BlockIDFlagCommit, Extension: [][]byte{nil, []byte("{"), []byte("\x00not json"), []byte("[1,2]"), []byte(`{"OracleAttestations":7}`)}[g.jr.Pick(5)]}
			}
		}
		if g.r.Chance(g.P.VoteFault) && (faultBudget+v.Power)*3 < total {
			faultBudget += v.Power
			switch g.r.Pick(3) {
			case 0:
				return VoteSpec{Flag: cmtproto.BlockIDFlagAbsent}
			case 1:
				return VoteSpec{Flag: cmtproto.BlockIDFlagNil}
			default:
				return VoteSpec{Flag: cmtproto.BlockIDFlagCommit, Extension: HostileExtension(g.r, c, v.Keys, honest)}
			}
		}
		return VoteSpec{Flag: cmtproto.BlockIDFlagCommit, Extension: honest}
	}
}

func (g *Gen) commission() math.LegacyDec {
	pool := []string{"0", "0.05", "0.1", "0.5", "1", "0.333333333333333333"}
	if g.r.Chance(g.P.Hostile) {
		pool = append(pool, "1.5", "100", "-0.1", "2", "0.000000000000000001")
	}
	return math.LegacyMustNewDecFromStr(pool[g.r.Pick(len(pool))])
}

func (g *Gen) tx(signer *Account, msgs ...sdk.Msg) []byte {
	if signer == nil || g.tb.Used(signer) {
		return nil
	}
	g.lastMsgs = msgs
	return g.tb.Tx(signer, msgs...)
}

func (g *Gen) someQuery(v *view) []byte {
	x := g.r.Float64()
	switch {
	case x < 0.45 && v.cycleQ != nil:
		return v.cycleQ
	case x < 0.75:
		return g.spots[g.r.Pick(len(g.spots))]
	case x < 0.82 && len(g.customQ) > 0:
		return g.customQ[g.r.Pick(len(g.customQ))]
	case x < 0.90:
		return BridgeQuery(true, uint64(1+g.r.Pick(4)))
	case x < 0.90+0.1*g.P.Hostile:
		switch g.r.Pick(4) {
		case 0:
			return BridgeQuery(false, uint64(1+g.r.Pick(3))) // withdrawal query: never reportable
		case 1:
			return []byte{1, 2, 3}
		case 2:
			return QueryData("NoSuchType", []byte{1})
		default:
			q := append([]byte{}, g.spots[0]...)
			return q[:len(q)-7]
		}
	default:
		return g.spots[g.r.Pick(3)]
	}
}

func (g *Gen) valueFor(qd []byte) string {
	// bridge deposit?
	if len(qd) > 0 && hex.EncodeToString(QueryID(qd)) != "" {
		for id := uint64(1); id <= 4; id++ {
			if string(qd) == string(BridgeQuery(true, id)) {
				rec := g.user().Bech()
				amts := []int64{1_000_000, 5_000_000, 12_345_678}
				amt := new(big.Int).Mul(big.NewInt(amts[g.r.Pick(len(amts)/1)%len(amts)]), big.NewInt(1e12))
				tip := new(big.Int).Mul(big.NewInt(int64(g.r.Pick(3))*1000), big.NewInt(1e12))
				// few distinct values so that mode ties and majorities both occur
				rec = g.c.W.Users[int(id)%len(g.c.W.Users)].Bech()
				if g.r.Chance(0.3) {
					rec = g.c.W.Users[(int(id)+1)%len(g.c.W.Users)].Bech()
				}
				return DepositValue([]byte{byte(id), 2, 3}, rec, amt, tip)
			}
		}
	}
	vals := []int64{1000, 1001, 1002, 2000, 3000, 50_000, 7}
	val := Uint256Value(big.NewInt(vals[g.r.Pick(len(vals))]))
	if g.r.Chance(g.P.Hostile) {
		switch g.r.Pick(9) {
		case 0, 1, 2, 3:
			return HostileSpelling(val, g.r.Pick(9))
		case 4:
			return val[:len(val)-1] // odd length
		case 5:
			return "zz" + val[2:]
		case 6:
			return val + val // 64 bytes
		case 7:
			return "0x"
		default:
			return val[2:] // 31 bytes
		}
	}
	return val
}

func (g *Gen) op(op string, v *view) []byte {
	a := g.c.App
	gov := authtypes.NewModuleAddress(govtypes.ModuleName).String()
	g.lastMsgs = nil
	switch op {
	case "tip":
		s := g.free(g.user)
		if s == nil {
			return nil
		}
		return g.tx(s, &oracletypes.MsgTip{Tipper: s.Bech(), QueryData: g.someQuery(v), Amount: rawCoin(g.amount(g.c.W.Cfg.UserBalance))})
	case "submit":
		var s *Account
		if len(v.reporters) > 0 && g.r.Chance(0.92) {
			s = g.free(func() *Account { return g.byAddr(v.reporters[g.r.Pick(len(v.reporters))]) })
		} else {
			s = g.free(g.acct)
		}
		if s == nil {
			return nil
		}
		qd := g.someQuery(v)
		// prefer queries that are open
		if g.r.Chance(0.35) && len(v.queries) > 0 {
			qd = v.queries[g.r.Pick(len(v.queries))].QueryData
		}
		return g.tx(s, &oracletypes.MsgSubmitValue{Creator: s.Bech(), QueryData: qd, Value: g.valueFor(qd)})
	case "specThenFail", "phantom":
		// a transaction whose first message writes a data spec and whose last message fails: nothing of it may survive,
		// neither in the store nor anywhere in the node. "phantom": the transaction is not even put into a block, it is
		// only handed to replicas that simulate what they are sent; either way the query type is tipped and reported later
		s := g.free(g.user)
		if s == nil {
			return nil
		}
		g.ghosts++
		name := fmt.Sprintf("Ghost%d", g.ghosts)
		spec := registrytypes.DataSpec{ResponseValueType: "uint256", AggregationMethod: []string{"weighted-median", "weighted-mode"}[g.r.Pick(2)],
			AbiComponents: []*registrytypes.ABIComponent{{Name: "x", FieldType: "uint256"}}, ReportBlockWindow: uint64(1 + g.r.Pick(3))}
		g.customQ = append(g.customQ, QueryData(name, abiPack([]string{"uint256"}, big.NewInt(1))))
		msgs := []sdk.Msg{&registrytypes.MsgRegisterSpec{Registrar: s.Bech(), QueryType: name, Spec: spec},
			&banktypes.MsgSend{FromAddress: s.Bech(), ToAddress: g.user().Bech(), Amount: sdk.Coins{rawCoin(g.c.W.Cfg.UserBalance * 1000)}}}
		bz := g.tx(s, msgs...)
		if op == "phantom" && bz != nil {
			g.tb.Forget(s)
			g.Phantoms = append(g.Phantoms, bz)
			return nil
		}
		return bz
	case "tipCustom":
		s := g.free(g.user)
		if s == nil || len(g.customQ) == 0 {
			return nil
		}
		return g.tx(s, &oracletypes.MsgTip{Tipper: s.Bech(), QueryData: g.customQ[g.r.Pick(len(g.customQ))], Amount: rawCoin(g.amount(1_000_000))})
	case "submitCustom":
		if len(v.reporters) == 0 || len(g.customQ) == 0 {
			return nil
		}
		s := g.free(func() *Account { return g.byAddr(v.reporters[g.r.Pick(len(v.reporters))]) })
		if s == nil {
			return nil
		}
		// two possible values only: equal-power reporters tie often
		val := Uint256Value(big.NewInt(int64(100 + g.r.Pick(2))))
		var open [][]byte
		for _, q := range v.queries {
			for _, cq := range g.customQ {
				if string(q.QueryData) == string(cq) {
					open = append(open, cq)
				}
			}
		}
		qd := g.customQ[g.r.Pick(len(g.customQ))]
		if len(open) > 0 {
			qd = open[g.r.Pick(len(open))]
		}
		return g.tx(s, &oracletypes.MsgSubmitValue{Creator: s.Bech(), QueryData: qd, Value: val})
	case "createReporter":
		s := g.free(g.acct)
		if s == nil {
			return nil
		}
		mins := []int64{1_000_000, 1_000_000, 2_000_000, 50_000_000}
		if g.r.Chance(g.P.Hostile) {
			mins = append(mins, 0, 999_999)
		}
		return g.tx(s, &reportertypes.MsgCreateReporter{ReporterAddress: s.Bech(), CommissionRate: g.commission(), MinTokensRequired: math.NewInt(mins[g.r.Pick(len(mins))])})
	case "selectReporter", "switchReporter":
		s := g.free(g.acct)
		if s == nil || len(v.reporters) == 0 {
			return nil
		}
		rep := v.reporters[g.r.Pick(len(v.reporters))].String()
		if g.r.Chance(g.P.Hostile * 0.3) {
			rep = g.acct().Bech()
		}
		if op == "selectReporter" {
			return g.tx(s, &reportertypes.MsgSelectReporter{SelectorAddress: s.Bech(), ReporterAddress: rep})
		}
		return g.tx(s, &reportertypes.MsgSwitchReporter{SelectorAddress: s.Bech(), ReporterAddress: rep})
	case "removeSelector":
		s := g.free(g.acct)
		if s == nil {
			return nil
		}
		return g.tx(s, &reportertypes.MsgRemoveSelector{AnyAddress: s.Bech(), SelectorAddress: g.acct().Bech()})
	case "unjailReporter":
		var s *Account
		for _, r := range v.reporters {
			if v.repMeta[r.String()].Jailed && g.r.Chance(0.7) {
				s = g.byAddr(r)
			}
		}
		if s == nil {
			s = g.acct()
		}
		return g.tx(s, &reportertypes.MsgUnjailReporter{ReporterAddress: s.Bech()})
	case "withdrawTip":
		s := g.free(g.acct)
		if s == nil {
			return nil
		}
		return g.tx(s, &reportertypes.MsgWithdrawTip{SelectorAddress: s.Bech(), ValidatorAddress: g.valAddr(v, false)})
	case "delegate":
		s := g.free(g.acct)
		if s == nil {
			return nil
		}
		return g.tx(s, &stakingtypes.MsgDelegate{DelegatorAddress: s.Bech(), ValidatorAddress: g.valAddr(v, false), Amount: rawCoin(g.amount(g.c.W.Cfg.UserBalance))})
	case "undelegate", "redelegate", "cancelUnbond":
		s := g.free(g.acct)
		if s == nil {
			return nil
		}
		dels, _ := a.StakingKeeper.GetDelegatorDelegations(v.ctx, s.Addr, 10)
		val := g.valAddr(v, false)
		amt := g.amount(1_000_000_000)
		if len(dels) > 0 {
			d := dels[g.r.Pick(len(dels))]
			val = d.ValidatorAddress
			if g.r.Chance(0.15) {
				// everything
				va, _ := sdk.ValAddressFromBech32(val)
				if vv, err := a.StakingKeeper.GetValidator(v.ctx, va); err == nil {
					amt = vv.TokensFromShares(d.Shares).TruncateInt().Int64()
				}
			}
		}
		switch op {
		case "undelegate":
			return g.tx(s, &stakingtypes.MsgUndelegate{DelegatorAddress: s.Bech(), ValidatorAddress: val, Amount: rawCoin(amt)})
		case "redelegate":
			return g.tx(s, &stakingtypes.MsgBeginRedelegate{DelegatorAddress: s.Bech(), ValidatorSrcAddress: val, ValidatorDstAddress: g.valAddr(v, false), Amount: rawCoin(amt)})
		default:
			ubds, _ := a.StakingKeeper.GetUnbondingDelegations(v.ctx, s.Addr, 5)
			if len(ubds) == 0 {
				return nil
			}
			u := ubds[g.r.Pick(len(ubds))]
			e := u.Entries[g.r.Pick(len(u.Entries))]
			am := e.Balance.Int64()
			if g.r.Chance(0.5) && am > 1 {
				am = am / 2
			}
			return g.tx(s, &stakingtypes.MsgCancelUnbondingDelegation{DelegatorAddress: s.Bech(), ValidatorAddress: u.ValidatorAddress, Amount: rawCoin(am), CreationHeight: e.CreationHeight})
		}
	case "createValidator":
		w := g.c.W
		if g.extraVals >= w.Cfg.ExtraVals {
			return nil
		}
		k := w.Vals[w.Cfg.NumVals+g.extraVals]
		if g.tb.Used(k.Op) {
			return nil
		}
		pkAny, _ := codectypes.NewAnyWithValue(k.Cons.PubKey())
		stake := []int64{100_000_000, 300_000_000, 550_000_000}[g.r.Pick(3)]
		msg := &stakingtypes.MsgCreateValidator{
			Description: stakingtypes.Description{Moniker: k.Op.Name}, Commission: stakingtypes.NewCommissionRates(math.LegacyNewDecWithPrec(5, 2), math.LegacyOneDec(), math.LegacyNewDecWithPrec(1, 2)),
			MinSelfDelegation: math.OneInt(), ValidatorAddress: k.ValAdr.String(), Pubkey: pkAny, Value: rawCoin(stake),
		}
		g.extraVals++
		return g.tx(k.Op, msg)
	case "send":
		s := g.free(g.acct)
		if s == nil {
			return nil
		}
		return g.tx(s, &banktypes.MsgSend{FromAddress: s.Bech(), ToAddress: g.acct().Bech(), Amount: sdk.Coins{rawCoin(g.amount(1_000_000_000))}})
	case "proposeDispute":
		s := g.free(g.acct)
		if s == nil || len(g.Reports) == 0 {
			return nil
		}
		sr := g.Reports[len(g.Reports)-1-g.r.Pick(min(len(g.Reports), 12))]
		rep := sr.R
		kind := "real"
		if g.r.Chance(g.P.Hostile * 0.5) {
			switch g.r.Pick(4) {
			case 0:
				rep.Power = rep.Power*3 + 1
				kind = "power"
			case 1:
				rep.Value = Uint256Value(big.NewInt(42))
				kind = "value"
			case 2:
				rep.BlockNumber++
				kind = "height"
			default:
				rep.Reporter = g.acct().Bech()
				kind = "reporter"
			}
		}
		_ = kind
		cat := disputetypes.DisputeCategory(1 + g.r.Pick(3))
		if g.r.Chance(g.P.Hostile * 0.1) {
			cat = disputetypes.DisputeCategory(g.r.Pick(6))
		}
		pct := map[disputetypes.DisputeCategory]int64{1: 1, 2: 5, 3: 100}[cat]
		full := int64(rep.Power) * 1_000_000 * pct / 100
		// a second round needs 5% * 2^round; try to find the existing dispute
		for _, d := range v.disputes {
			if d.DisputeStatus == disputetypes.Unresolved && string(d.InitialEvidence.QueryId) == string(rep.QueryId) && d.InitialEvidence.Reporter == rep.Reporter {
				rep = d.InitialEvidence
				cat = d.DisputeCategory
				full = d.SlashAmount.Int64()
			}
		}
		fee := full
		switch g.r.Pick(8) {
		case 6: // just short of the full fee
			fee = []int64{full - 1, full - full/20, full - full/20 - 1, full * 97 / 100}[g.r.Pick(4)]
		case 0:
			fee = full / 2
		case 1:
			fee = full/3 + 1
		case 2:
			fee = []int64{full + 7, full + 3_000_000, full * 2}[g.r.Pick(3)]
		case 3:
			if g.r.Chance(g.P.Hostile) {
				fee = 10_000
			}
		}
		fromBond := g.r.Chance(0.2)
		if fromBond {
			// only a reporter can pay from bond
			if len(v.reporters) > 0 {
				if x := g.byAddr(v.reporters[g.r.Pick(len(v.reporters))]); x != nil && !g.tb.Used(x) {
					s = x
				}
			}
		}
		return g.tx(s, &disputetypes.MsgProposeDispute{Creator: s.Bech(), Report: &rep, DisputeCategory: cat, Fee: rawCoin(fee), PayFromBond: fromBond})
	case "addFee":
		s := g.free(g.acct)
		if s == nil || len(v.disputes) == 0 {
			return nil
		}
		d := v.disputes[g.r.Pick(len(v.disputes))]
		for _, x := range v.disputes {
			if x.DisputeStatus == disputetypes.Prevote && g.r.Chance(0.7) {
				d = x
			}
		}
		rem := d.SlashAmount.Sub(d.FeeTotal).Int64()
		amt := rem
		switch g.r.Pick(5) {
		case 0:
			amt = rem/2 + 1
		case 1:
			amt = rem + 5
			if d.DisputeId%2 == 0 { // an over-offer far above any rounding tolerance (after C04-j); no extra draw
				amt = rem*3 + 1_000_000
			}
		case 2:
			amt = g.amount(rem)
		case 3:
			// leaves the dispute between 95 % and 100 % paid (never complete)
			if short := 1 + g.r.Int63n(d.SlashAmount.Int64()/20+1); short < rem {
				amt = rem - short
			}
		}
		fromBond := g.r.Chance(0.2)
		if fromBond && len(v.reporters) > 0 {
			if x := g.byAddr(v.reporters[g.r.Pick(len(v.reporters))]); x != nil && !g.tb.Used(x) {
				s = x
			}
		}
		return g.tx(s, &disputetypes.MsgAddFeeToDispute{Creator: s.Bech(), DisputeId: d.DisputeId, Amount: rawCoin(amt), PayFromBond: fromBond})
	case "vote":
		if len(v.disputes) == 0 {
			return nil
		}
		d := v.disputes[g.r.Pick(len(v.disputes))]
		for _, x := range v.disputes {
			if x.DisputeStatus == disputetypes.Voting && g.r.Chance(0.6) {
				d = x
			}
		}
		s := g.free(g.acct)
		if g.r.Chance(0.12) && !g.tb.Used(g.c.W.Team) {
			s = g.c.W.Team
		}
		// an address whose whole balance is the fee of this very transaction: a vote with no power at all
		if d.DisputeStatus == disputetypes.Voting && g.jr.Chance(0.12) {
			for _, pa := range g.c.W.Poor {
				if !g.tb.Used(pa) && func() bool {
					b := a.BankKeeper.GetBalance(v.ctx, pa.Addr, Denom).Amount
					return b.GTE(math.NewInt(DefaultFee)) && b.LTE(math.NewInt(2*DefaultFee))
				}() {
					s = pa
					break
				}
			}
		}
		if s == nil {
			return nil
		}
		return g.tx(s, &disputetypes.MsgVote{Voter: s.Bech(), Id: d.DisputeId, Vote: disputetypes.VoteEnum(g.r.Pick(3) + boolInt(g.r.Chance(g.P.Hostile*0.1)))})
	case "withdrawFeeRefund":
		s := g.free(g.acct)
		if s == nil || len(v.disputes) == 0 {
			return nil
		}
		d := v.disputes[g.r.Pick(len(v.disputes))]
		payer := g.acct().Bech()
		// prefer a recorded payer
		var payers []string
		_ = a.DisputeKeeper.DisputeFeePayer.Walk(v.ctx, collections.NewPrefixedPairRange[uint64, []byte](d.DisputeId), func(k collections.Pair[uint64, []byte], _ disputetypes.PayerInfo) (bool, error) {
			payers = append(payers, sdk.AccAddress(k.K2()).String())
			return false, nil
		})
		if len(payers) > 0 && g.r.Chance(0.85) {
			payer = payers[g.r.Pick(len(payers))]
		}
		return g.tx(s, &disputetypes.MsgWithdrawFeeRefund{CallerAddress: s.Bech(), PayerAddress: payer, Id: d.DisputeId})
	case "claimReward":
		s := g.free(g.acct)
		if s == nil || len(v.disputes) == 0 {
			return nil
		}
		d := v.disputes[g.r.Pick(len(v.disputes))]
		return g.tx(s, &disputetypes.MsgClaimReward{CallerAddress: s.Bech(), DisputeId: d.DisputeId})
	case "addEvidence":
		s := g.free(g.acct)
		if s == nil || len(v.disputes) == 0 || len(g.Reports) == 0 {
			return nil
		}
		d := v.disputes[g.r.Pick(len(v.disputes))]
		var reps []*oracletypes.MicroReport
		for i := 0; i < 1+g.r.Pick(2); i++ {
			r := g.Reports[g.r.Pick(len(g.Reports))].R
			if g.r.Chance(g.P.Hostile * 0.4) {
				r.Reporter = g.acct().Bech()
			}
			reps = append(reps, &r)
		}
		return g.tx(s, &disputetypes.MsgAddEvidence{CallerAddress: s.Bech(), DisputeId: d.DisputeId, Reports: reps})
	case "updateTeam":
		s := g.free(g.acct)
		if s == nil {
			return nil
		}
		cur := s.Bech()
		if g.r.Chance(0.5) {
			cur = g.c.W.Team.Bech() // signed by somebody else: signature check must fail
		}
		return g.tx(s, &disputetypes.MsgUpdateTeam{CurrentTeamAddress: cur, NewTeamAddress: s.Bech()})
	case "withdrawTokens":
		s := g.free(g.user)
		if s == nil {
			return nil
		}
		rcp := hex.EncodeToString(g.user().Addr.Bytes())
		if g.r.Chance(g.P.Hostile) {
			// (the last four: valid hex followed or interrupted by something that is not hex)
			rcp = []string{"", "0x" + rcp, rcp[:10], rcp + rcp, "zz", rcp + "\n", rcp[:20] + "O" + rcp[21:], rcp + " ", rcp[:39]}[g.r.Pick(9)]
		}
		return g.tx(s, &bridgetypes.MsgWithdrawTokens{Creator: s.Bech(), Recipient: rcp, Amount: rawCoin(g.amount(g.c.W.Cfg.UserBalance))})
	case "claimDeposits":
		s := g.free(g.user)
		if s == nil {
			return nil
		}
		n := 1 + g.r.Pick(2)
		var ids, idx []uint64
		for i := 0; i < n; i++ {
			ids = append(ids, uint64(1+g.r.Pick(4)))
			idx = append(idx, uint64(g.r.Pick(2)))
		}
		if g.r.Chance(g.P.Hostile * 0.3) {
			ids = append(ids, ids[0])
			idx = append(idx, idx[0])
		}
		if g.r.Chance(g.P.Hostile * 0.5) {
			// a deposit id nobody ever reported (its query id lies somewhere between the others), or an index past the
			// aggregates of a reported one: there is no aggregate "for that deposit's query" to claim from
			k := g.r.Pick(len(ids))
			if g.r.Chance(0.7) {
				ids[k] = uint64(20 + g.r.Pick(400))
				idx[k] = uint64(g.r.Pick(2))
			} else {
				idx[k] = uint64(1 + g.r.Pick(4))
			}
		}
		return g.tx(s, &bridgetypes.MsgClaimDepositsRequest{Creator: s.Bech(), DepositIds: ids, Indices: idx})
	case "requestAttest":
		s := g.free(g.user)
		if s == nil {
			return nil
		}
		qid := QueryID(g.someQuery(v))
		ts := uint64(g.c.Time.UnixMilli())
		if agg, t, err := a.OracleKeeper.GetCurrentAggregateReport(v.ctx, qid); err == nil && agg != nil {
			ts = uint64(t.UnixMilli())
		}
		if g.r.Chance(0.5) {
			// an OLDER aggregate of the query (one that has a successor by now), possibly one that was attested before
			var all []uint64
			_ = a.OracleKeeper.Aggregates.Walk(v.ctx, collections.NewPrefixedPairRange[[]byte, uint64](qid), func(k collections.Pair[[]byte, uint64], _ oracletypes.Aggregate) (bool, error) {
				all = append(all, k.K2())
				return false, nil
			})
			if len(all) > 1 {
				ts = all[g.r.Pick(len(all)-1)]
			}
		}
		if g.r.Chance(g.P.Hostile * 0.3) {
			ts++
		}
		return g.tx(s, &bridgetypes.MsgRequestAttestations{Creator: s.Bech(), QueryId: hex.EncodeToString(qid), Timestamp: strconv.FormatUint(ts, 10)})
	case "registerSpec":
		s := g.free(g.user)
		if s == nil {
			return nil
		}
		k := g.r.Pick(4)
		names := []string{"ModeStr", "MedianU", "ModeU", "MedianW0"}
		spec := registrytypes.DataSpec{ResponseValueType: []string{"string", "uint256", "uint256", "uint256"}[k], AggregationMethod: []string{"weighted-mode", "weighted-median", "weighted-mode", "weighted-median"}[k],
			AbiComponents: []*registrytypes.ABIComponent{{Name: "x", FieldType: "uint256"}}, ReportBlockWindow: []uint64{3, 1, 2, 0}[k]}
		name := names[k]
		if g.r.Chance(g.P.Hostile) {
			// respellings of registered types: letter case, surrounding white space, embedded control characters
			name = []string{"SPOTPRICE", "spotprice", "TrbBridge", name, " spotprice", "SpotPrice\n", "\ttrbbridge ", "spotprice\x00", strings.ToLower(name) + " ", " " + name}[g.r.Pick(10)]
		}
		qd := QueryData(names[k], abiPack([]string{"uint256"}, big.NewInt(int64(1+g.r.Pick(2)))))
		known := false
		for _, q := range g.customQ {
			if string(q) == string(qd) {
				known = true
			}
		}
		if !known {
			g.customQ = append(g.customQ, qd)
		}
		return g.tx(s, &registrytypes.MsgRegisterSpec{Registrar: s.Bech(), QueryType: name, Spec: spec})
	case "privileged":
		// privileged messages signed by a non-authority, naming themselves as authority
		s := g.free(g.acct)
		if s == nil {
			return nil
		}
		var m sdk.Msg
		switch g.r.Pick(7) {
		case 0:
			m = &oracletypes.MsgUpdateParams{Authority: s.Bech(), Params: oracletypes.Params{MinStakeAmount: math.NewInt(1)}}
		case 1:
			m = &oracletypes.MsgUpdateCyclelist{Authority: s.Bech(), Cyclelist: [][]byte{g.spots[3]}}
		case 2:
			m = &registrytypes.MsgUpdateDataSpec{Authority: s.Bech(), QueryType: "spotprice", Spec: registrytypes.DataSpec{ResponseValueType: "uint256", AggregationMethod: "weighted-mode", ReportBlockWindow: 1}}
		case 3:
			m = &reportertypes.MsgUpdateParams{Authority: s.Bech(), Params: reportertypes.Params{MinCommissionRate: math.LegacyZeroDec(), MinTrb: math.NewInt(1), MaxSelectors: 1}}
		case 4:
			m = &minttypes.MsgInit{Authority: s.Bech()}
		case 5:
			m = &bridgetypes.MsgUpdateSnapshotLimit{Authority: s.Bech(), Limit: 1}
		default:
			m = &disputetypes.MsgUpdateTeam{CurrentTeamAddress: s.Bech(), NewTeamAddress: s.Bech()}
		}
		return g.tx(s, m)
	case "govProposal":
		if !g.P.Gov {
			return nil
		}
		s := g.free(g.user)
		if s == nil {
			return nil
		}
		var m sdk.Msg
		switch g.r.Pick(8) {
		case 0:
			m = &minttypes.MsgInit{Authority: gov}
		case 1:
			// also far below one whole token: reporters whose stake is worth no power at all become admissible
			m = &oracletypes.MsgUpdateParams{Authority: gov, Params: oracletypes.Params{MinStakeAmount: math.NewInt([]int64{1_000_000, 2_000_000, 1, 400_000, 2_500_000}[g.r.Pick(5)])}}
		case 2:
			cl := [][]byte{g.spots[0], g.spots[1], g.spots[2], g.spots[3]}
			if g.P.GovHalt && g.r.Chance(0.5) {
				cl = cl[:1+g.r.Pick(2)]
			}
			m = &oracletypes.MsgUpdateCyclelist{Authority: gov, Cyclelist: cl}
		case 3:
			m = &registrytypes.MsgUpdateDataSpec{Authority: gov, QueryType: "SpotPrice", Spec: registrytypes.DataSpec{ResponseValueType: "uint256", AggregationMethod: "weighted-median",
				AbiComponents: []*registrytypes.ABIComponent{{Name: "asset", FieldType: "string"}, {Name: "currency", FieldType: "string"}}, ReportBlockWindow: uint64(g.r.Pick(5))}}
		case 4:
			m = &reportertypes.MsgUpdateParams{Authority: gov, Params: reportertypes.Params{MinCommissionRate: math.LegacyZeroDec(), MinTrb: math.NewInt(1_000_000), MaxSelectors: uint64(2 + g.r.Pick(3))}}
		case 5:
			m = &bridgetypes.MsgUpdateSnapshotLimit{Authority: gov, Limit: uint64(g.r.Pick(4))}
		case 6:
			m = &registrytypes.MsgUpdateDataSpec{Authority: gov, QueryType: "TRBBridge", Spec: registrytypes.DataSpec{ResponseValueType: "address, string, uint256", AggregationMethod: "weighted-mode",
				AbiComponents: []*registrytypes.ABIComponent{{Name: "toLayer", FieldType: "bool"}, {Name: "depositId", FieldType: "uint256"}}, ReportBlockWindow: uint64(2 + g.r.Pick(6))}}
		default:
			m = &minttypes.MsgInit{Authority: gov}
		}
		pm, err := govv1.NewMsgSubmitProposal([]sdk.Msg{m}, sdk.Coins{rawCoin(10_000_000)}, s.Bech(), "", "t", "s", false)
		if err != nil {
			return nil
		}
		return g.tx(s, pm)
	case "govVote":
		if !g.P.Gov {
			return nil
		}
		var ids []uint64
		_ = a.GovKeeper.Proposals.Walk(v.ctx, nil, func(id uint64, p govv1.Proposal) (bool, error) {
			if p.Status == govv1.StatusVotingPeriod {
				ids = append(ids, id)
			}
			return false, nil
		})
		if len(ids) == 0 {
			return nil
		}
		id := ids[g.r.Pick(len(ids))]
		// a validator operator that has not voted yet
		for _, k := range g.c.W.Vals {
			if g.tb.Used(k.Op) {
				continue
			}
			if has, _ := a.GovKeeper.Votes.Has(v.ctx, collections.Join(id, k.Op.Addr)); has {
				continue
			}
			opt := govv1.OptionYes
			return g.tx(k.Op, govv1.NewMsgVote(k.Op.Addr, id, opt, ""))
		}
		return nil
	case "unjailVal":
		for _, k := range g.c.W.Vals {
			if g.tb.Used(k.Op) {
				continue
			}
			if vv, err := a.StakingKeeper.GetValidator(v.ctx, k.ValAdr); err == nil && vv.Jailed {
				return g.tx(k.Op, slashingtypes.NewMsgUnjail(k.ValAdr.String()))
			}
		}
		return nil
	case "multiStake":
		// several staking messages in one tx (C18)
		s := g.free(g.acct)
		if s == nil {
			return nil
		}
		var msgs []sdk.Msg
		for i := 0; i < 2+g.r.Pick(3); i++ {
			amt := rawCoin(g.amount(1_000_000_000))
			if g.r.Chance(0.7) {
				msgs = append(msgs, &stakingtypes.MsgDelegate{DelegatorAddress: s.Bech(), ValidatorAddress: g.valAddr(v, false), Amount: amt})
			} else {
				msgs = append(msgs, &stakingtypes.MsgUndelegate{DelegatorAddress: s.Bech(), ValidatorAddress: g.valAddr(v, false), Amount: amt})
			}
		}
		if g.r.Chance(0.4) {
			// a message that moves no stake, in front or at the end
			send := &banktypes.MsgSend{FromAddress: s.Bech(), ToAddress: g.user().Bech(), Amount: sdk.NewCoins(rawCoin(1))}
			if g.r.Chance(0.5) {
				msgs = append(msgs, send)
			} else {
				msgs = append([]sdk.Msg{send}, msgs...)
			}
		}
		return g.tx(s, msgs...)
	}
	return nil
}

func boolInt(b bool) int {
	if b {
		return 1
	}
	return 0
}

func min(a, b int) int {
	if a < b {
		return a
	}
	return b
}

// rawCoin builds a coin without validation so that zero and negative amounts reach the chain as hostile inputs.
func rawCoin(amt int64) sdk.Coin { return sdk.Coin{Denom: Denom, Amount: math.NewInt(amt)} }
