package sim

import (
	"fmt"
	"os"
	"runtime/debug"
	"sync"

	dbm "github.com/cosmos/cosmos-db"
)

// leakDB wraps the in-memory database and remembers which iterators are open. cosmos-db's MemDB keeps a read lock for
// the life of an iterator, so an iterator that is never closed makes the next Commit wait for ever (goleveldb, which a
// real node uses, does not block). OpenIterators lets the driver turn that wait into a report naming the call site.
type leakDB struct {
	dbm.DB
	mu   sync.Mutex
	open map[*leakIter]string
}

type leakIter struct {
	dbm.Iterator
	db *leakDB
}

func newLeakDB(db dbm.DB) *leakDB { return &leakDB{DB: db, open: map[*leakIter]string{}} }

func (l *leakDB) track(it dbm.Iterator, err error) (dbm.Iterator, error) {
	if err != nil {
		return it, err
	}
	w := &leakIter{Iterator: it, db: l}
	st := ""
	if os.Getenv("VERIF_ITER_STACKS") != "" {
		st = string(debug.Stack())
	}
	l.mu.Lock()
	l.open[w] = st
	l.mu.Unlock()
	return w, nil
}

func (l *leakDB) Iterator(start, end []byte) (dbm.Iterator, error) {
	return l.track(l.DB.Iterator(start, end))
}

func (l *leakDB) ReverseIterator(start, end []byte) (dbm.Iterator, error) {
	return l.track(l.DB.ReverseIterator(start, end))
}

func (w *leakIter) Close() error {
	w.db.mu.Lock()
	delete(w.db.open, w)
	w.db.mu.Unlock()
	return w.Iterator.Close()
}

// OpenIterators returns how many iterators are open and (with VERIF_ITER_STACKS set) where the first was created.
func (l *leakDB) OpenIterators() (int, string) {
	l.mu.Lock()
	defer l.mu.Unlock()
	for _, st := range l.open {
		return len(l.open), st
	}
	return 0, ""
}

// CloseLeaked closes the iterators that are still open (so that Commit can proceed) and returns their number.
func (l *leakDB) CloseLeaked() int {
	l.mu.Lock()
	its := make([]*leakIter, 0, len(l.open))
	for it := range l.open {
		its = append(its, it)
	}
	l.mu.Unlock()
	for _, it := range its {
		_ = it.Close()
	}
	return len(its)
}

var _ = fmt.Sprint
