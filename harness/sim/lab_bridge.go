package sim

import (
	"bytes"
	"encoding/hex"
	"fmt"
	"math/big"
	"os"

	bridgetypes "github.com/tellor-io/layer/x/bridge/types"

	"verif/harness/ref"

	"cosmossdk.io/math"

	sdk "github.com/cosmos/cosmos-sdk/types"
)

// ---- C15: bridge byte encodings agree with what the EVM contracts compute and verify ----

var shapes *ref.Shapes

func loadShapes() (*ref.Shapes, error) {
	if shapes != nil {
		return shapes, nil
	}
	repo := os.Getenv("VERIF_REPO")
	if repo == "" {
		repo = "/repo"
	}
	sh, err := ref.LoadShapes(repo)
	if err == nil {
		shapes = sh
	}
	return sh, err
}

func randBytes(r *Rng, n int) []byte {
	b := make([]byte, n)
	for i := range b {
		b[i] = byte(r.Intn(256))
	}
	return b
}

func randU64(r *Rng) uint64 {
	switch r.Pick(6) {
	case 0:
		return uint64(r.Pick(3))
	case 1:
		return ^uint64(0) - uint64(r.Pick(2))
	case 2:
		return 1 << 63
	case 3:
		return uint64(r.Int63())
	case 4:
		return uint64(r.Int63n(1 << 32))
	default:
		return uint64(r.Int63()) << 1
	}
}

func c15One(l *LabCtx) {
	sh, err := loadShapes()
	if err != nil {
		l.Violate("C15", "c15", "cannot-read-contract-shapes", map[string]interface{}{"err": err.Error()})
		return
	}
	r := l.R
	k := l.C.App.BridgeKeeper
	fail := func(what string, d map[string]interface{}) { l.Violate("C15", "c15", what, d) }

	// 1. validator set hash
	n := 1 + r.Pick(6)
	if r.Chance(0.15) {
		n = 1 + r.Pick(100)
	}
	set := &bridgetypes.BridgeValidatorSet{}
	var rset []ref.Validator
	powClass := r.Pick(3)
	var total uint64
	for i := 0; i < n; i++ {
		addr := randBytes(r, 20)
		if r.Chance(0.1) {
			addr[0], addr[1] = 0, 0 // leading zero bytes
		}
		p := uint64(1 + r.Pick(1000))
		if powClass == 1 {
			p = randU64(r) >> 8
		}
		if powClass == 2 {
			p = 1 << 63 / uint64(n)
		}
		total += p
		set.BridgeValidatorSet = append(set.BridgeValidatorSet, &bridgetypes.BridgeValidator{EthereumAddress: addr, Power: p})
		rset = append(rset, ref.Validator{Addr: addr, Power: p})
	}
	_, gotHash, err := k.EncodeAndHashValidatorSet(l.Ctx, set)
	wantHash := sh.ValsetHash(rset)
	l.St.Count("c15.valset-hash.evals")
	sizeClass := "n<=6"
	if n > 6 {
		sizeClass = "n<=100"
	}
	l.St.Bucket("c15|valset|%s|pow=%d", sizeClass, powClass)
	if err != nil || !bytes.Equal(gotHash, wantHash) {
		fail("validator-set-hash-differs", map[string]interface{}{"n": n, "got": hex.EncodeToString(gotHash), "want": hex.EncodeToString(wantHash), "err": fmt.Sprint(err)})
	}

	// 7. threshold = two thirds of the total power. Run on its own branch of the chain state, before the direct
	// CalculateValidatorSetCheckpoint call below advances the checkpoint index to a timestamp without a stored set.
	if total < 1<<62 {
		bctx, _ := l.Ctx.CacheContext()
		err := k.SetBridgeValidatorParams(bctx, set)
		if err != nil {
			l.St.Count("c15.threshold.set-params-error")
		} else {
			p, err := k.GetValidatorCheckpointParamsFromStorage(bctx, uint64(bctx.BlockTime().UnixMilli()))
			l.St.Count("c15.threshold.evals")
			l.St.Bucket("c15|threshold|total%%3=%d|pow=%d", total%3, powClass)
			want := new(big.Int).Quo(new(big.Int).Mul(new(big.Int).SetUint64(total), big.NewInt(2)), big.NewInt(3))
			if err != nil || new(big.Int).SetUint64(p.PowerThreshold).Cmp(want) != 0 {
				fail("power-threshold-not-two-thirds", map[string]interface{}{"total": total, "got": p.PowerThreshold, "want": want.String()})
			}
			// stored hash and checkpoint are consistent with the reference for the stored set
			cp, _ := sh.CheckpointOf(want, new(big.Int).SetUint64(p.Timestamp), wantHash)
			if !bytes.Equal(p.ValsetHash, wantHash) || !bytes.Equal(p.Checkpoint, cp) {
				fail("stored-checkpoint-params-inconsistent", map[string]interface{}{"n": n})
			}
		}
	}

	// 2. checkpoint
	thr, ts := randU64(r), randU64(r)
	gotCp, err := k.CalculateValidatorSetCheckpoint(l.Ctx, thr, ts, gotHash)
	wantCp, _ := sh.CheckpointOf(new(big.Int).SetUint64(thr), new(big.Int).SetUint64(ts), wantHash)
	l.St.Count("c15.checkpoint.evals")
	l.St.Bucket("c15|checkpoint|thr-big=%v|ts-big=%v", thr > 1<<62, ts > 1<<62)
	if err != nil || !bytes.Equal(gotCp, wantCp) {
		fail("checkpoint-differs", map[string]interface{}{"threshold": thr, "timestamp": ts, "got": hex.EncodeToString(gotCp), "want": hex.EncodeToString(wantCp), "err": fmt.Sprint(err)})
	}

	// 3. attestation digest
	vlen := []int{0, 1, 31, 32, 33, 64, 1 + r.Pick(200)}[r.Pick(7)]
	value := randBytes(r, vlen)
	qid := randBytes(r, 32)
	t1, pw, t0, t2, at := randU64(r), randU64(r), randU64(r), randU64(r), randU64(r)
	gotDig, err := k.EncodeOracleAttestationData(qid, hex.EncodeToString(value), t1, pw, t0, t2, gotCp, at)
	enc, _ := ref.EncodeArgs(sh.Attest, map[string]interface{}{
		"_attestData.queryId": qid, "_attestData.report.value": value, "_attestData.report.timestamp": t1, "_attestData.report.aggregatePower": pw,
		"_attestData.report.previousTimestamp": t0, "_attestData.report.nextTimestamp": t2, "lastValidatorSetCheckpoint": wantCp, "_attestData.attestationTimestamp": at})
	wantDig := ref.Keccak256(enc)
	l.St.Count("c15.attestation-digest.evals")
	l.St.Bucket("c15|attest|vlen%%32=%d|vlen=%d", vlen%32, minInt(vlen, 65))
	if err != nil || !bytes.Equal(gotDig, wantDig) {
		fail("attestation-digest-differs", map[string]interface{}{"value_len": vlen, "got": hex.EncodeToString(gotDig), "want": hex.EncodeToString(wantDig), "err": fmt.Sprint(err)})
	}

	// 4. deposit / withdrawal query ids
	id := randU64(r)
	inner := func(toLayer bool) []byte {
		args := make([]ref.Arg, len(sh.QueryInner))
		copy(args, sh.QueryInner)
		for i := range args {
			if args[i].Type == "bool" {
				args[i].Const = toLayer
			}
		}
		b, _ := ref.EncodeArgs(args, map[string]interface{}{"_depositId": id})
		return b
	}
	qidOf := func(toLayer bool) []byte {
		b, _ := ref.EncodeArgs(sh.QueryOuter, map[string]interface{}{sh.QueryOuter[1].Expr: inner(toLayer)})
		return ref.Keccak256(b)
	}
	gw, err1 := k.GetWithdrawalQueryId(id)
	gd, err2 := k.GetDepositQueryId(id)
	l.St.Count("c15.query-id.evals")
	l.St.Bucket("c15|queryid|id-big=%v", id > 1<<62)
	if err1 != nil || !bytes.Equal(gw, qidOf(false)) {
		fail("withdrawal-query-id-differs", map[string]interface{}{"id": id})
	}
	if err2 != nil || !bytes.Equal(gd, qidOf(true)) {
		fail("deposit-query-id-differs", map[string]interface{}{"id": id})
	}
	// the workload generator's own query data must hash to the same ids (ties C14's workload to the contract)
	if !bytes.Equal(QueryID(BridgeQuery(true, id)), gd) || !bytes.Equal(QueryID(BridgeQuery(false, id)), gw) {
		fail("query-data-hash-differs-from-query-id", map[string]interface{}{"id": id})
	}

	// 5. withdrawal report value: abi.encode per the tuple the contract decodes
	amt := randU64(r) >> 1
	sender := sdk.AccAddress(randBytes(r, []int{1, 20, 20, 20, 32, 40}[r.Pick(6)]))
	rcpLen := []int{0, 1, 19, 20, 20, 20, 21, 40}[r.Pick(8)]
	rcp := randBytes(r, rcpLen)
	gotVal, err := k.GetWithdrawalReportValue(sdk.NewCoin(Denom, math.NewIntFromUint64(amt)), sender, rcp)
	rcp20 := rcp
	if len(rcp20) > 20 {
		rcp20 = rcp20[len(rcp20)-20:]
	}
	vals := []interface{}{rcp20, sender.String(), amt, uint64(0)}
	var tv []ref.Val
	for i, t := range sh.WithdrawTuple {
		tv = append(tv, ref.Val{Type: t, V: vals[i]})
	}
	wantVal := ref.Encode(tv...)
	l.St.Count("c15.withdraw-value.evals")
	l.St.Bucket("c15|withdrawvalue|rcp=%d|senderlen=%d", rcpLen, len(sender))
	if err != nil || !bytes.Equal(gotVal, wantVal) {
		fail("withdrawal-report-value-differs", map[string]interface{}{"got": hex.EncodeToString(gotVal), "want": hex.EncodeToString(wantVal), "err": fmt.Sprint(err)})
	}

	// 6. inverse: a deposit value encoded by the reference decodes to the same fields
	acc := l.C.W.Users[r.Pick(len(l.C.W.Users))]
	a12 := new(big.Int).Mul(new(big.Int).SetUint64(uint64(r.Int63n(1<<40))), big.NewInt(1e12))
	a12.Add(a12, big.NewInt(int64(r.Pick(1000)))) // sub-unit remainder is dropped by /1e12
	tp12 := new(big.Int).Mul(new(big.Int).SetUint64(uint64(r.Int63n(1<<20))), big.NewInt(1e12))
	dep := ref.Encode(ref.Val{Type: "address", V: randBytes(r, 20)}, ref.Val{Type: "string", V: acc.Bech()}, ref.Val{Type: "uint256", V: a12}, ref.Val{Type: "uint256", V: tp12})
	rc, am, tp, err := k.DecodeDepositReportValue(l.Ctx, hex.EncodeToString(dep))
	l.St.Count("c15.deposit-decode.evals")
	wantAm := new(big.Int).Quo(a12, big.NewInt(1e12))
	wantTp := new(big.Int).Quo(tp12, big.NewInt(1e12))
	if err != nil || !rc.Equals(acc.Addr) || am.AmountOf(Denom).BigInt().Cmp(wantAm) != 0 || tp.AmountOf(Denom).BigInt().Cmp(wantTp) != 0 {
		fail("deposit-value-decodes-differently", map[string]interface{}{"err": fmt.Sprint(err), "amount": am.String(), "want": wantAm.String()})
	}

	// 8. signature convention: what a validator signs (keyring: secp256k1 over sha256(msg)) is what the contract recovers
	v := l.C.W.Vals[r.Pick(len(l.C.W.Vals))]
	sig := v.BridgeSign(wantDig)
	s, ok := ref.SigFromChain(sig, wantDig, v.EVMAddress())
	l.St.Count("c15.signature.evals")
	if !ok || (s.V != 27 && s.V != 28) {
		fail("contract-cannot-recover-validator-from-chain-signature", map[string]interface{}{"validator": v.Idx})
	}
	// and the chain derives the same EVM address from the validator's initial signatures
	a1 := sha256sum([]byte("TellorLayer: Initial bridge signature A"))
	b1 := sha256sum([]byte("TellorLayer: Initial bridge signature B"))
	evm, err := k.EVMAddressFromSignatures(l.Ctx, v.BridgeSign(a1), v.BridgeSign(b1))
	if err != nil || !bytes.Equal(evm.Bytes(), v.EVMAddress()) {
		fail("evm-address-from-initial-signatures-differs", map[string]interface{}{"validator": v.Idx, "err": fmt.Sprint(err)})
	}
}

func init() {
	RegisterLab(&LabDef{
		ID:      "C15",
		Inputs:  map[string]int{"quick": 6000, "thorough": 80000},
		Batches: map[string]int{"quick": 8, "thorough": 16},
		One:     c15One,
	})
}
