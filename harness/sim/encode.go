package sim

import (
	"encoding/hex"
	"math/big"
	"strings"

	"github.com/ethereum/go-ethereum/accounts/abi"
	"github.com/ethereum/go-ethereum/common"
	"github.com/ethereum/go-ethereum/crypto"
)

// Query-data builders used by the workload generator (go-ethereum's ABI coder; the independent
// encoder that decides C15 lives in ref/ and does not use this).

func mustType(t string) abi.Type {
	ty, err := abi.NewType(t, "", nil)
	if err != nil {
		panic(err)
	}
	return ty
}

func abiPack(types []string, vals ...interface{}) []byte {
	var args abi.Arguments
	for _, t := range types {
		args = append(args, abi.Argument{Type: mustType(t)})
	}
	bz, err := args.Pack(vals...)
	if err != nil {
		panic(err)
	}
	return bz
}

// QueryData = abi.encode(string queryType, bytes args)
func QueryData(queryType string, args []byte) []byte {
	return abiPack([]string{"string", "bytes"}, queryType, args)
}

func SpotPriceQuery(asset, currency string) []byte {
	return QueryData("SpotPrice", abiPack([]string{"string", "string"}, asset, currency))
}

func BridgeQuery(toLayer bool, id uint64) []byte {
	return QueryData("TRBBridge", abiPack([]string{"bool", "uint256"}, toLayer, new(big.Int).SetUint64(id)))
}

func QueryID(qd []byte) []byte { return crypto.Keccak256(qd) }

// Uint256Value is the canonical 32-byte hex spelling of n.
func Uint256Value(n *big.Int) string {
	return hex.EncodeToString(common.LeftPadBytes(n.Bytes(), 32))
}

// DepositValue = abi.encode(address ethSender, string layerRecipient, uint256 amount, uint256 tip)
func DepositValue(sender []byte, recipient string, amount, tip *big.Int) string {
	return hex.EncodeToString(abiPack([]string{"address", "string", "uint256", "uint256"}, common.BytesToAddress(sender), recipient, amount, tip))
}

// HostileSpelling returns a different spelling of the same hex value (kind selects which).
func HostileSpelling(v string, kind int) string {
	switch kind % 9 {
	case 6:
		return "0x0x" + v // a second prefix survives one round of prefix stripping
	case 7:
		return "0X0x" + strings.ToUpper(v)
	case 8:
		return "0x0X" + v
	case 0:
		return "0x" + v
	case 1:
		return "0X" + v
	case 2:
		return strings.ToUpper(v)
	case 3:
		return "0x" + strings.ToUpper(v)
	case 4:
		// mixed case
		b := []byte(v)
		for i := range b {
			if i%2 == 0 && b[i] >= 'a' && b[i] <= 'f' {
				b[i] -= 32
			}
		}
		return string(b)
	default:
		return v
	}
}
