package sim

import (
	"fmt"

	disputetypes "github.com/tellor-io/layer/x/dispute/types"
	oracletypes "github.com/tellor-io/layer/x/oracle/types"
	reportertypes "github.com/tellor-io/layer/x/reporter/types"

	"cosmossdk.io/math"

	sdk "github.com/cosmos/cosmos-sdk/types"
	authtypes "github.com/cosmos/cosmos-sdk/x/auth/types"
	stakingkeeper "github.com/cosmos/cosmos-sdk/x/staking/keeper"
	stakingtypes "github.com/cosmos/cosmos-sdk/x/staking/types"
)

func modBal(c *Chain, ctx sdk.Context, module string) math.Int {
	return c.App.BankKeeper.GetBalance(ctx, authtypes.NewModuleAddress(module), Denom).Amount
}

// StakeSnap is the staked-token ledger next to the pools that must back it.
type StakeSnap struct {
	PoolBonded, PoolNotBonded   math.Int
	LedgerBonded, LedgerNotBond math.Int                  // Σ validator tokens by status
	UBD                         math.Int                  // Σ unbonding entry balances
	Dispute                     math.Int                  // dispute module balance
	Dels                        map[string]math.LegacyDec // delegator|validator -> shares
}

func TakeStakeSnap(c *Chain, ctx sdk.Context, withDels bool) StakeSnap {
	s := StakeSnap{LedgerBonded: math.ZeroInt(), LedgerNotBond: math.ZeroInt(), UBD: math.ZeroInt()}
	s.PoolBonded = modBal(c, ctx, stakingtypes.BondedPoolName)
	s.PoolNotBonded = modBal(c, ctx, stakingtypes.NotBondedPoolName)
	s.Dispute = modBal(c, ctx, disputetypes.ModuleName)
	vals, _ := c.App.StakingKeeper.GetAllValidators(ctx)
	for _, v := range vals {
		if v.IsBonded() {
			s.LedgerBonded = s.LedgerBonded.Add(v.Tokens)
		} else {
			s.LedgerNotBond = s.LedgerNotBond.Add(v.Tokens)
		}
	}
	_ = c.App.StakingKeeper.IterateUnbondingDelegations(ctx, func(_ int64, u stakingtypes.UnbondingDelegation) bool {
		for _, e := range u.Entries {
			s.UBD = s.UBD.Add(e.Balance)
		}
		return false
	})
	if withDels {
		s.Dels = map[string]math.LegacyDec{}
		_ = c.App.StakingKeeper.IterateAllDelegations(ctx, func(d stakingtypes.Delegation) bool {
			s.Dels[d.DelegatorAddress+"|"+d.ValidatorAddress] = d.Shares
			return false
		})
	}
	return s
}

func (s StakeSnap) Pools() math.Int  { return s.PoolBonded.Add(s.PoolNotBonded) }
func (s StakeSnap) Ledger() math.Int { return s.LedgerBonded.Add(s.LedgerNotBond).Add(s.UBD) }

// C05Monitor: the staked-token ledger is always backed by the pools (DESIGN.md §4 C05).
type C05Monitor struct {
	BaseMonitor
	st   *Stats
	prev StakeSnap
	// records known before the tx, to detect newly written escrow / fee records
	escrow                      map[string]bool
	fees                        map[string]math.Int
	bondedShort, notBondedShort bool
	invBroken                   map[string]bool
	entries                     map[string]int // "e"/"f"+hash -> number of origins in the escrow / fee record
}

func NewC05Monitor(st *Stats) *C05Monitor { return &C05Monitor{st: st} }
func (m *C05Monitor) Name() string        { return "c05" }

func layerMsg(tx sdk.Tx) (string, bool) {
	if tx == nil {
		return "", false
	}
	name := ""
	isLayer := false
	for _, msg := range tx.GetMsgs() {
		u := sdk.MsgTypeURL(msg)
		if name == "" {
			name = u
		}
		if len(u) > 7 && u[:7] == "/layer." {
			isLayer = true
			name = u
		}
	}
	return name, isLayer
}

func (m *C05Monitor) records(c *Chain, ctx sdk.Context) (map[string]bool, map[string]math.Int) {
	esc := map[string]bool{}
	fees := map[string]math.Int{}
	m.entries = map[string]int{}
	_ = c.App.ReporterKeeper.DisputedDelegationAmounts.Walk(ctx, nil, func(k []byte, v reportertypes.DelegationsAmounts) (bool, error) {
		esc[string(k)] = true
		m.entries["e"+string(k)] = len(v.TokenOrigins)
		return false, nil
	})
	_ = c.App.ReporterKeeper.FeePaidFromStake.Walk(ctx, nil, func(k []byte, v reportertypes.DelegationsAmounts) (bool, error) {
		fees[string(k)] = v.Total
		m.entries["f"+string(k)] = len(v.TokenOrigins)
		return false, nil
	})
	return esc, fees
}

// returnedEntries: how many recorded (selector, validator, amount) entries the records that existed before hold; the
// statement allows one unit per returned entry to stay in the pool, and one delegation can be fed by several entries
func (m *C05Monitor) returnedEntries(c *Chain, ctx sdk.Context) int {
	before := m.entries
	n := 0
	for k, cnt := range before {
		var has bool
		if k[0] == 'e' {
			has, _ = c.App.ReporterKeeper.DisputedDelegationAmounts.Has(ctx, []byte(k[1:]))
		} else {
			has, _ = c.App.ReporterKeeper.FeePaidFromStake.Has(ctx, []byte(k[1:]))
		}
		if !has {
			n += cnt // the record was consumed: its entries were returned
		}
	}
	return n
}

func (m *C05Monitor) invariants(c *Chain, ctx sdk.Context, where string, s StakeSnap) {
	m.st.Count("c05.backing.evals")
	// edge-triggered: reported where the backing is lost, not at every later observation point
	bShort := s.PoolBonded.LT(s.LedgerBonded)
	if bShort && !m.bondedShort {
		c.Violate("C05", "c05", "bonded-pool-short@"+where, map[string]interface{}{"pool": s.PoolBonded.String(), "ledger": s.LedgerBonded.String()})
	}
	m.bondedShort = bShort
	nShort := s.PoolNotBonded.LT(s.LedgerNotBond.Add(s.UBD))
	if nShort && !m.notBondedShort {
		c.Violate("C05", "c05", "notbonded-pool-short@"+where, map[string]interface{}{"pool": s.PoolNotBonded.String(), "validators": s.LedgerNotBond.String(), "ubd": s.UBD.String()})
	}
	m.notBondedShort = nShort
	for name, inv := range map[string]sdk.Invariant{
		"NonNegativePower":   stakingkeeper.NonNegativePowerInvariant(c.App.StakingKeeper),
		"PositiveDelegation": stakingkeeper.PositiveDelegationInvariant(c.App.StakingKeeper),
		"DelegatorShares":    stakingkeeper.DelegatorSharesInvariant(c.App.StakingKeeper),
	} {
		msg, broken := inv(ctx)
		if broken && !m.invBroken[name] {
			c.Violate("C05", "c05", "staking-invariant:"+name+"@"+where, map[string]interface{}{"msg": firstLines(msg, 6)})
		}
		if m.invBroken == nil {
			m.invBroken = map[string]bool{}
		}
		m.invBroken[name] = broken
	}
}

func (m *C05Monitor) BeforeBlock(c *Chain, ctx sdk.Context) {
	m.prev = TakeStakeSnap(c, ctx, true)
	m.escrow, m.fees = m.records(c, ctx)
}

func (m *C05Monitor) BeginBlockEntry(c *Chain, ctx sdk.Context) {
	m.prev = TakeStakeSnap(c, ctx, true)
}

func (m *C05Monitor) BeginBlockExit(c *Chain, ctx sdk.Context, err error) {
	if err != nil {
		return
	}
	s := TakeStakeSnap(c, ctx, true)
	m.invariants(c, ctx, "beginblock", s)
	// dispute execution returns / keeps stake in BeginBlock
	m.deltaN(c, "beginblock", true, m.prev, s, m.returnedEntries(c, ctx))
	m.prev = s
	m.escrow, m.fees = m.records(c, ctx)
}

func incCount(a, b StakeSnap) int {
	n := 0
	for k, v := range b.Dels {
		if old, ok := a.Dels[k]; !ok || v.GT(old) {
			n++
		}
	}
	return n
}

// delta checks that ledger and pools moved together.
func (m *C05Monitor) delta(c *Chain, what string, layer bool, a, b StakeSnap) {
	m.deltaN(c, what, layer, a, b, 0)
}

func (m *C05Monitor) deltaN(c *Chain, what string, layer bool, a, b StakeSnap, returned int) {
	dPools := b.Pools().Sub(a.Pools())
	dLedger := b.Ledger().Sub(a.Ledger())
	diff := dPools.Sub(dLedger)
	if dPools.IsZero() && dLedger.IsZero() {
		return
	}
	m.st.Count("c05.delta.evals")
	dir := "take"
	if dLedger.IsPositive() {
		dir = "put"
	}
	m.st.Bucket("c05|%s|%s|layer=%v|incdels=%d", what, dir, layer, minInt(incCount(a, b), 3))
	if diff.IsNegative() {
		// the ledger kept more (or lost less) than the pools: tokens recorded without backing
		c.Violate("C05", "c05", "ledger-exceeds-pool-delta:"+what, map[string]interface{}{"dPools": dPools.String(), "dLedger": dLedger.String()})
		return
	}
	if diff.IsPositive() {
		allowed := int64(incCount(a, b))
		if int64(returned) > allowed {
			allowed = int64(returned)
		}
		if !layer {
			allowed = 0
		}
		if diff.GT(math.NewInt(allowed)) {
			c.Violate("C05", "c05", "pool-exceeds-ledger-delta:"+what, map[string]interface{}{"dPools": dPools.String(), "dLedger": dLedger.String(), "entries": allowed})
		}
	}
}

func (m *C05Monitor) AfterTx(c *Chain, ctx sdk.Context, tx sdk.Tx, ok bool) {
	if !ok {
		return
	}
	name, layer := layerMsg(tx)
	s := TakeStakeSnap(c, ctx, true)
	m.invariants(c, ctx, "tx:"+name, s)
	m.deltaN(c, "tx:"+name, layer, m.prev, s, m.returnedEntries(c, ctx))
	// newly written escrow / fee-from-stake records must sum to what moved into the dispute account
	esc, fees := m.records(c, ctx)
	moved := s.Dispute.Sub(m.prev.Dispute)
	// subtract what the signer paid from the liquid balance in this tx (fee field of the messages)
	for _, msg := range tx.GetMsgs() {
		switch x := msg.(type) {
		case *disputetypes.MsgProposeDispute:
			_ = x
		case *disputetypes.MsgAddFeeToDispute:
			_ = x
		}
	}
	fromStake := a2i(m.prev.Pools().Sub(s.Pools())) // what left the pools
	_ = moved
	var recSum, recTotal int64
	newRec := false
	evidence := "n/a"
	var origins []string
	nOrigins, offPar := 0, false // origins of the new records; does one of their validators have a share price other than 1?
	negEntries := 0              // origins recorded with a negative amount
	for k := range esc {
		if !m.escrow[k] {
			v, err := c.App.ReporterKeeper.DisputedDelegationAmounts.Get(ctx, []byte(k))
			if err == nil {
				newRec = true
				if d, ok := disputeByHash(c, ctx, []byte(k)); ok {
					if EvidenceInStore(c, ctx, d.InitialEvidence) {
						evidence = "stored"
					} else {
						evidence = "not-in-store"
					}
				}
				for _, o := range v.TokenOrigins {
					origins = append(origins, fmt.Sprintf("%s@%s:%s", sdk.AccAddress(o.DelegatorAddress), sdk.ValAddress(o.ValidatorAddress), o.Amount))
					nOrigins++
					if o.Amount.IsNegative() {
						negEntries++
					}
					if val, err := c.App.StakingKeeper.GetValidator(ctx, sdk.ValAddress(o.ValidatorAddress)); err == nil && !val.DelegatorShares.Equal(math.LegacyNewDecFromInt(val.Tokens)) {
						offPar = true
					}
				}
				recTotal += a2i(v.Total)
				for _, o := range v.TokenOrigins {
					recSum += a2i(o.Amount)
				}
			}
		}
	}
	feeNew := false
	for k, tot := range fees {
		old, had := m.fees[k]
		if !had {
			old = math.ZeroInt()
		}
		if !tot.Equal(old) {
			feeNew = true
			v, err := c.App.ReporterKeeper.FeePaidFromStake.Get(ctx, []byte(k))
			if err == nil {
				recTotal += a2i(tot.Sub(old))
				sum := math.ZeroInt()
				for _, o := range v.TokenOrigins {
					sum = sum.Add(o.Amount)
				}
				// all origins (old and new) must sum to the total
				if !sum.Equal(v.Total) {
					c.Violate("C05", "c05", "fee-from-stake-record-sum", map[string]interface{}{"sum_origins": sum.String(), "total": v.Total.String(), "msg": name})
				}
				recSum += a2i(tot.Sub(old))
			}
		}
	}
	if newRec || feeNew {
		m.st.Count("c05.record.evals")
		m.st.Bucket("c05|record|escrow=%v|fee=%v", newRec, feeNew)
		if recSum != recTotal {
			c.Violate("C05", "c05", "escrow-record-sum:evidence="+evidence, map[string]interface{}{"sum_origins": recSum, "total": recTotal, "msg": name, "origins": origins})
		}
		if recTotal != fromStake {
			// discriminating fact: could the shortfall have been taken from the stake the backers still hold?
			avail := "n/a"
			if newRec {
				avail = m.backersStillHold(c, ctx, esc, recTotal-fromStake)
			}
			// discriminating fact: stake taken from a delegation to a slashed validator (shares are not worth one token each)
			// comes out truncated by up to one unit per origin while the full amount is recorded (known finding)
			class := ""
			if d := recTotal - fromStake; newRec && offPar && d > 0 && d <= int64(nOrigins) {
				class = ":within-share-price-truncation"
			} else if newRec && negEntries > 0 && d < 0 && -d <= int64(nOrigins) {
				// the proportional split rounds every backer's share to the nearest unit and gives what is left to the last
				// entry: when the rounded shares already exceed the amount that entry is recorded with a negative amount
				class = ":negative-leftover-entry"
			}
			c.Violate("C05", "c05", "escrow-record-vs-moved:evidence="+evidence+":stake-still-available="+avail+class, map[string]interface{}{"recorded": recTotal, "left_pools": fromStake, "msg": name, "origins": origins})
		}
	}
	m.prev = s
	m.escrow, m.fees = esc, fees
}

func a2i(x math.Int) int64 {
	if !x.IsInt64() {
		return 1 << 62
	}
	return x.Int64()
}

func (m *C05Monitor) EndBlockEntry(c *Chain, ctx sdk.Context) {
	m.prev = TakeStakeSnap(c, ctx, true)
}

func (m *C05Monitor) EndBlockExit(c *Chain, ctx sdk.Context, err error) {
	if err != nil {
		return
	}
	s := TakeStakeSnap(c, ctx, false)
	m.invariants(c, ctx, "endblock", s)
}

var _ = fmt.Sprintf
var _ = oracletypes.ModuleName

// EvidenceInStore reports whether the oracle really stored a micro report with the reporter, query id,
// block number, value and power named in the evidence.
func EvidenceInStore(c *Chain, ctx sdk.Context, ev oracletypes.MicroReport) bool {
	addr, err := sdk.AccAddressFromBech32(ev.Reporter)
	if err != nil {
		return false
	}
	iter, err := c.App.OracleKeeper.Reports.Indexes.Reporter.MatchExact(ctx, addr.Bytes())
	if err != nil {
		return false
	}
	defer iter.Close()
	for ; iter.Valid(); iter.Next() {
		pk, err := iter.PrimaryKey()
		if err != nil {
			return false
		}
		r, err := c.App.OracleKeeper.Reports.Get(ctx, pk)
		if err != nil {
			continue
		}
		if string(r.QueryId) == string(ev.QueryId) && r.BlockNumber == ev.BlockNumber && r.Power == ev.Power && r.Value == ev.Value {
			return true
		}
	}
	return false
}

func disputeByHash(c *Chain, ctx sdk.Context, hash []byte) (d disputetypes.Dispute, found bool) {
	_ = c.App.DisputeKeeper.Disputes.Walk(ctx, nil, func(k uint64, v disputetypes.Dispute) (bool, error) {
		if string(v.HashId) == string(hash) {
			d, found = v, true
		}
		return false, nil
	})
	return
}

// backersStillHold tells whether, after the funding tx, the backers named in the disputed report's stake
// snapshot still hold at least `shortfall` tokens at the snapshot's validators (delegation + unbonding).
func (m *C05Monitor) backersStillHold(c *Chain, ctx sdk.Context, esc map[string]bool, shortfall int64) string {
	held := math.ZeroInt()
	for k := range esc {
		if m.escrow[k] {
			continue
		}
		d, ok := disputeByHash(c, ctx, []byte(k))
		if !ok {
			continue
		}
		ev := d.InitialEvidence
		addr, err := sdk.AccAddressFromBech32(ev.Reporter)
		if err != nil {
			continue
		}
		snap, err := c.App.ReporterKeeper.Report.Get(ctx, collJoinReport(ev.QueryId, addr, ev.BlockNumber))
		if err != nil {
			continue
		}
		for _, o := range snap.TokenOrigins {
			del := sdk.AccAddress(o.DelegatorAddress)
			val := sdk.ValAddress(o.ValidatorAddress)
			if dl, err := c.App.StakingKeeper.GetDelegation(ctx, del, val); err == nil {
				if v, err := c.App.StakingKeeper.GetValidator(ctx, val); err == nil {
					held = held.Add(v.TokensFromShares(dl.Shares).TruncateInt())
				}
			}
			if u, err := c.App.StakingKeeper.GetUnbondingDelegation(ctx, del, val); err == nil {
				for _, e := range u.Entries {
					held = held.Add(e.Balance)
				}
			}
		}
	}
	if held.GTE(math.NewInt(shortfall)) {
		return "yes"
	}
	return "no"
}
