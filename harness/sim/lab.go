package sim

import (
	"fmt"
	"time"

	sdk "github.com/cosmos/cosmos-sdk/types"
)

// Engine B ("keeperlab"): the real keepers of a real, populated application state; every case branches the
// committed state, calls exported functions with generated inputs and lets a definition-level oracle
// inspect return values and store differences. Nothing a case does is ever committed.

type LabCtx struct {
	C   *Chain
	Ctx sdk.Context // fresh branch of the committed state
	R   *Rng
	St  *Stats
	V   *[]Violation
	N   int // index of the input within the batch
}

func (l *LabCtx) Violate(prop, monitor, sig string, detail map[string]interface{}) {
	*l.V = append(*l.V, Violation{Property: prop, Monitor: monitor, Sig: sig, Height: l.C.Height, Phase: "lab", Detail: detail})
}

type LabDef struct {
	ID string
	// Populate runs a chain long enough to have the state the inputs need (nil: empty chain after a few blocks)
	PopulateProfile *Profile
	PopulateBlocks  int
	World           func(cfg *WorldCfg, r *Rng)
	// Inputs per batch and batches per tier
	Inputs  map[string]int
	Batches map[string]int
	// One evaluates one generated input on a branch
	One func(l *LabCtx)
	// Once runs once per batch before the generated inputs (exhaustive sub-spaces)
	Once func(l *LabCtx)
}

var Labs = map[string]*LabDef{}

func RegisterLab(d *LabDef) { Labs[d.ID] = d }

// RunLabBatch populates a chain (a function of seed and batch number) and evaluates the batch's inputs.
func RunLabBatch(spec CaseSpec) (res CaseResult) {
	t0 := time.Now()
	res.Spec = spec
	def := Labs[spec.Prop]
	if def == nil {
		res.Inconclusive = "unknown lab property " + spec.Prop
		return
	}
	caseSeed := spec.Seed*1_000_003 + int64(spec.Case)
	r := NewRng(caseSeed, "lab:"+spec.Prop)
	cfg := DefaultWorldCfg(caseSeed)
	if def.World != nil {
		def.World(&cfg, r)
	}
	w := NewWorld(cfg)
	st := NewStats()
	var viol []Violation
	c := NewChain(w, AppOpts{})
	defer c.Close()
	defer func() {
		if rec := recover(); rec != nil {
			res.Inconclusive = fmt.Sprintf("harness panic: %v", rec)
		}
		res.Violations = append(viol, c.Violations...)
		res.Buckets = st.BucketList()
		res.Counters = st.Counters
		res.WallS = time.Since(t0).Seconds()
	}()
	if def.PopulateProfile != nil {
		g := NewGen(c, caseSeed, *def.PopulateProfile)
		c.Monitors = append(c.Monitors, g)
		for _, f := range def.PopulateProfile.Fragments {
			g.QueueFragment(f)
		}
		for i := 0; i < def.PopulateBlocks; i++ {
			br := c.NextBlock(g.Plan())
			if br.Err != nil {
				res.Dead = true
				res.Death = NormalizeErr(br.Err.Error())
				break
			}
			res.BlocksRun++
		}
		res.Samples = g.Samples
	} else {
		for i := 0; i < 3; i++ {
			c.NextBlock(BlockPlan{Gap: time.Second})
			res.BlocksRun++
		}
	}
	n := def.Inputs[spec.Tier]
	base := c.CommittedCtx()
	eval := 0
	if def.Once != nil && spec.Case == 0 {
		bctx, _ := base.CacheContext()
		def.Once(&LabCtx{C: c, Ctx: bctx, R: r, St: st, V: &viol})
		eval++
	}
	for i := 0; i < n; i++ {
		bctx, _ := base.CacheContext()
		def.One(&LabCtx{C: c, Ctx: bctx.WithEventManager(sdk.NewEventManager()), R: r, St: st, V: &viol, N: i})
		eval++
	}
	res.Counters = st.Counters
	st.Add("lab.inputs", eval)
	res.BlocksRun = eval // "evaluations" of a lab batch are its inputs
	return
}
