package sim

import (
	"fmt"
	"strings"
	"sync"

	"cosmossdk.io/log"
)

// PanicLog captures what baseapp logs when it recovers a panic of an ABCI handler (PrepareProposal,
// ProcessProposal, ExtendVote, VerifyVoteExtension recover panics and only log them), so that a monitor
// can see handler panics that never reach the ABCI boundary. Everything else is dropped.
type PanicLog struct {
	mu     sync.Mutex
	Events []string
}

type capLogger struct{ p *PanicLog }

func (l capLogger) Info(string, ...any)  {}
func (l capLogger) Warn(string, ...any)  {}
func (l capLogger) Debug(string, ...any) {}
func (l capLogger) Error(msg string, kv ...any) {
	if strings.Contains(msg, "panic recovered in PrepareProposal") || strings.Contains(msg, "panic recovered in ProcessProposal") ||
		strings.Contains(msg, "panic recovered in ExtendVote") || strings.Contains(msg, "panic recovered in VerifyVoteExtension") {
		l.p.mu.Lock()
		s := msg
		for i := 0; i+1 < len(kv); i += 2 {
			if fmt.Sprint(kv[i]) == "panic" {
				s += ": " + fmt.Sprint(kv[i+1])
			}
		}
		l.p.Events = append(l.p.Events, s)
		l.p.mu.Unlock()
	}
}
func (l capLogger) With(...any) log.Logger { return l }
func (l capLogger) Impl() any              { return l.p }

// Take returns and clears the recorded handler panics.
func (p *PanicLog) Take() []string {
	p.mu.Lock()
	defer p.mu.Unlock()
	e := p.Events
	p.Events = nil
	return e
}
