package sim

import (
	"crypto/sha256"
	"encoding/json"
	"errors"

	abci "github.com/cometbft/cometbft/abci/types"
	"github.com/ethereum/go-ethereum/crypto"
	"github.com/tellor-io/layer/app"
	bridgetypes "github.com/tellor-io/layer/x/bridge/types"

	"cosmossdk.io/collections"

	sdk "github.com/cosmos/cosmos-sdk/types"
)

// BridgeSign signs the way the node's keyring does for bridge data: secp256k1 over sha256(msg), 64 bytes R||S.
func (v *ValKeys) BridgeSign(msg []byte) []byte {
	sig, err := v.Op.Priv.Sign(msg)
	if err != nil {
		panic(err)
	}
	return sig
}

// EVMAddress is the Ethereum address of the validator's bridge key.
func (v *ValKeys) EVMAddress() []byte {
	pk, err := crypto.DecompressPubkey(v.Op.Priv.PubKey().Bytes())
	if err != nil {
		panic(err)
	}
	return crypto.PubkeyToAddress(*pk).Bytes()
}

// HonestExtension re-implements app.VoteExtHandler.ExtendVoteHandler for validator v with the
// harness-held key (the real handler needs a keyring on disk and serves one identity per process).
// ctx is the state the real handler would see: last committed state, header height = height being voted on.
func HonestExtension(c *Chain, ctx sdk.Context, v *ValKeys) []byte {
	bk := c.App.BridgeKeeper
	ext := app.BridgeVoteExtension{}
	marshal := func() []byte {
		bz, err := json.Marshal(ext)
		if err != nil {
			panic(err)
		}
		return bz
	}
	op := v.ValAdr.String()
	if _, err := bk.GetEVMAddressByOperator(ctx, op); err != nil {
		a := sha256.Sum256([]byte("TellorLayer: Initial bridge signature A"))
		b := sha256.Sum256([]byte("TellorLayer: Initial bridge signature B"))
		ext.InitialSignature = app.InitialSignature{SignatureA: v.BridgeSign(a[:]), SignatureB: v.BridgeSign(b[:])}
	}
	reqs, err := bk.GetAttestationRequestsByHeight(ctx, uint64(ctx.BlockHeight()-1))
	if err != nil {
		if !errors.Is(err, collections.ErrNotFound) {
			return marshal()
		}
	} else {
		for _, r := range reqs.Requests {
			ext.OracleAttestations = append(ext.OracleAttestations, app.OracleAttestation{Snapshot: r.Snapshot, Attestation: v.BridgeSign(r.Snapshot)})
		}
	}
	// CheckAndSignValidatorCheckpoint
	idx, err := bk.GetLatestCheckpointIndex(ctx)
	if err != nil {
		return marshal()
	}
	ts, err := bk.GetValidatorTimestampByIdxFromStorage(ctx, idx)
	if err != nil {
		return marshal()
	}
	did, valIdx, err := bk.GetValidatorDidSignCheckpoint(ctx, op, ts.Timestamp)
	if err != nil {
		return marshal()
	}
	if !did && valIdx >= 0 {
		params, err := bk.GetValidatorCheckpointParamsFromStorage(ctx, ts.Timestamp)
		if err != nil {
			return marshal()
		}
		ext.ValsetSignature = app.BridgeValsetSignature{Signature: v.BridgeSign(params.Checkpoint), Timestamp: ts.Timestamp}
	}
	return marshal()
}

// VerifyExt asks the real VerifyVoteExtension handler whether the consensus engine would count this precommit.
func (c *Chain) VerifyExt(height int64, v *ValKeys, ext []byte) (ok bool, panicked string) {
	defer func() {
		if r := recover(); r != nil {
			ok = false
			panicked = "panic in VerifyVoteExtension"
		}
	}()
	res, err := c.App.VerifyVoteExtension(&abci.RequestVerifyVoteExtension{
		Hash: []byte("blockhash"), ValidatorAddress: v.ConsAdr, Height: height, VoteExtension: ext,
	})
	if err != nil {
		return false, ""
	}
	return res.Status == abci.ResponseVerifyVoteExtension_ACCEPT, ""
}

// HostileExtension produces a vote extension a byzantine (minority) validator could send.
// Every third hostile vote that has something to attest (chosen by height and sender, without a draw, so that the
// random stream of all other choices is what it was before this case existed) names, in its first attestation, a
// snapshot that IS stored but is not the one requested: an older one, properly signed by the sender - preferably one
// whose attestation list is exactly as long as the sender's index in the saved validator set (the validator set grew
// since that snapshot was taken and the sender sits just past the end of its list), else one of another length than
// the current set, else any older one.
func HostileExtension(r *Rng, c *Chain, v *ValKeys, honest []byte) []byte {
	out := hostileExtension(r, c, v, honest)
	var ext app.BridgeVoteExtension
	if json.Unmarshal(honest, &ext) != nil || len(ext.OracleAttestations) == 0 || (c.Height+int64(v.ConsAdr[0]))%3 != 0 {
		return out
	}
	ctx := c.CommittedCtx()
	bk := c.App.BridgeKeeper
	idx, setLen := -1, 0
	if evm, err := bk.OperatorToEVMAddressMap.Get(ctx, v.ValAdr.String()); err == nil {
		if set, err := bk.BridgeValset.Get(ctx); err == nil {
			setLen = len(set.BridgeValidatorSet)
			for i, bv := range set.BridgeValidatorSet {
				if string(bv.EthereumAddress) == string(evm.EVMAddress) {
					idx = i
				}
			}
		}
	}
	requested := map[string]bool{}
	for _, a := range ext.OracleAttestations {
		requested[string(a.Snapshot)] = true
	}
	var edge, otherLen, any []byte
	n := 0
	_ = bk.SnapshotToAttestationsMap.Walk(ctx, nil, func(k []byte, val bridgetypes.OracleAttestations) (bool, error) {
		n++
		if requested[string(k)] {
			return n > 600, nil
		}
		switch {
		case idx >= 0 && len(val.Attestations) == idx && edge == nil:
			edge = append([]byte{}, k...)
		case len(val.Attestations) != setLen && otherLen == nil:
			otherLen = append([]byte{}, k...)
		case any == nil:
			any = append([]byte{}, k...)
		}
		return n > 600 || edge != nil, nil
	})
	pick := edge
	if pick == nil {
		pick = otherLen
	}
	if pick == nil {
		pick = any
	}
	if pick == nil {
		return out
	}
	ext.OracleAttestations[0] = app.OracleAttestation{Snapshot: pick, Attestation: v.BridgeSign(pick)}
	bz, _ := json.Marshal(ext)
	return bz
}

func hostileExtension(r *Rng, c *Chain, v *ValKeys, honest []byte) []byte {
	var ext app.BridgeVoteExtension
	_ = json.Unmarshal(honest, &ext)
	junk := func(n int) []byte {
		b := make([]byte, n)
		for i := range b {
			b[i] = byte(r.Intn(256))
		}
		return b
	}
	// when there is something to attest, half of the hostile extensions name a foreign snapshot in their FIRST
	// attestation: an entry that cannot be stored, followed (in commit order) by entries that can
	if len(ext.OracleAttestations) > 0 && r.Chance(0.5) {
		// (replacing the first one: more attestations than requests are refused by VerifyVoteExtension)
		ext.OracleAttestations[0] = app.OracleAttestation{Snapshot: junk(32), Attestation: junk(64)}
		bz, _ := json.Marshal(ext)
		return bz
	}
	switch r.Pick(17) {
	case 14:
		// initial signatures that are too SHORT (the size check of VerifyVoteExtension only has an upper bound)
		ext.InitialSignature = app.InitialSignature{SignatureA: junk(1 + r.Pick(63)), SignatureB: junk(64)}
	case 15:
		ext.InitialSignature = app.InitialSignature{SignatureA: junk(64), SignatureB: junk(r.Pick(40))}
	case 16:
		ext.ValsetSignature = app.BridgeValsetSignature{Signature: junk(1 + r.Pick(63)), Timestamp: ext.ValsetSignature.Timestamp}
	case 0:
		return nil
	case 1:
		return junk(1 + r.Pick(80))
	case 2:
		if len(honest) > 2 {
			return honest[:r.Pick(len(honest))]
		}
		return []byte("{")
	case 3:
		return []byte("null")
	case 4:
		return []byte(`{"OracleAttestations":null,"InitialSignature":null,"ValsetSignature":null}`)
	case 5:
		ext.InitialSignature = app.InitialSignature{SignatureA: junk(64), SignatureB: junk(64)}
	case 6:
		ext.InitialSignature = app.InitialSignature{SignatureA: junk(66), SignatureB: junk(10)}
	case 7:
		// somebody else's initial signatures
		o := c.W.Vals[r.Pick(len(c.W.Vals))]
		a := sha256.Sum256([]byte("TellorLayer: Initial bridge signature A"))
		b := sha256.Sum256([]byte("TellorLayer: Initial bridge signature B"))
		ext.InitialSignature = app.InitialSignature{SignatureA: o.BridgeSign(a[:]), SignatureB: o.BridgeSign(b[:])}
	case 8:
		ext.ValsetSignature = app.BridgeValsetSignature{Signature: junk(64), Timestamp: uint64(r.Int63())}
	case 9:
		ext.ValsetSignature = app.BridgeValsetSignature{Signature: junk(65), Timestamp: ext.ValsetSignature.Timestamp}
	case 10:
		ext.OracleAttestations = append(ext.OracleAttestations, app.OracleAttestation{Snapshot: junk(32), Attestation: junk(64)})
	case 11:
		if len(ext.OracleAttestations) > 0 {
			ext.OracleAttestations = append(ext.OracleAttestations, ext.OracleAttestations[0])
		} else {
			ext.OracleAttestations = []app.OracleAttestation{{Snapshot: nil, Attestation: nil}}
		}
	case 12:
		for i := range ext.OracleAttestations {
			ext.OracleAttestations[i].Attestation = junk(64)
		}
		ext.ValsetSignature.Signature = junk(3)
	default:
		ext.InitialSignature.SignatureA = []byte{}
		ext.ValsetSignature.Timestamp = 0
	}
	bz, _ := json.Marshal(ext)
	return bz
}
