package sim

import (
	"crypto/sha256"
	"encoding/json"
	"errors"

	abci "github.com/cometbft/cometbft/abci/types"
	"github.com/ethereum/go-ethereum/crypto"
	"github.com/tellor-io/layer/app"

	"cosmossdk.io/collections"

	sdk "github.com/cosmos/cosmos-sdk/types"
)

// BridgeSign signs the way the node's keyring does for bridge data: secp256k1 over sha256(msg), 64 bytes R||S.
func (v *ValKeys) BridgeSign(msg []byte) []byte {
	sig, err := v.Op.Priv.Sign(msg)
	if err != nil {
		panic(err)
	}
	return sig
}

// EVMAddress is the Ethereum address of the validator's bridge key.
func (v *ValKeys) EVMAddress() []byte {
	pk, err := crypto.DecompressPubkey(v.Op.Priv.PubKey().Bytes())
	if err != nil {
		panic(err)
	}
	return crypto.PubkeyToAddress(*pk).Bytes()
}

// HonestExtension re-implements app.VoteExtHandler.ExtendVoteHandler for validator v with the
// harness-held key (the real handler needs a keyring on disk and serves one identity per process).
// ctx is the state the real handler would see: last committed state, header height = height being voted on.
func HonestExtension(c *Chain, ctx sdk.Context, v *ValKeys) []byte {
	bk := c.App.BridgeKeeper
	ext := app.BridgeVoteExtension{}
	marshal := func() []byte {
		bz, err := json.Marshal(ext)
		if err != nil {
			panic(err)
		}
		return bz
	}
	op := v.ValAdr.String()
	if _, err := bk.GetEVMAddressByOperator(ctx, op); err != nil {
		a := sha256.Sum256([]byte("TellorLayer: Initial bridge signature A"))
		b := sha256.Sum256([]byte("TellorLayer: Initial bridge signature B"))
		ext.InitialSignature = app.InitialSignature{SignatureA: v.BridgeSign(a[:]), SignatureB: v.BridgeSign(b[:])}
	}
	reqs, err := bk.GetAttestationRequestsByHeight(ctx, uint64(ctx.BlockHeight()-1))
	if err != nil {
		if !errors.Is(err, collections.ErrNotFound) {
			return marshal()
		}
	} else {
		for _, r := range reqs.Requests {
			ext.OracleAttestations = append(ext.OracleAttestations, app.OracleAttestation{Snapshot: r.Snapshot, Attestation: v.BridgeSign(r.Snapshot)})
		}
	}
	// CheckAndSignValidatorCheckpoint
	idx, err := bk.GetLatestCheckpointIndex(ctx)
	if err != nil {
		return marshal()
	}
	ts, err := bk.GetValidatorTimestampByIdxFromStorage(ctx, idx)
	if err != nil {
		return marshal()
	}
	did, valIdx, err := bk.GetValidatorDidSignCheckpoint(ctx, op, ts.Timestamp)
	if err != nil {
		return marshal()
	}
	if !did && valIdx >= 0 {
		params, err := bk.GetValidatorCheckpointParamsFromStorage(ctx, ts.Timestamp)
		if err != nil {
			return marshal()
		}
		ext.ValsetSignature = app.BridgeValsetSignature{Signature: v.BridgeSign(params.Checkpoint), Timestamp: ts.Timestamp}
	}
	return marshal()
}

// VerifyExt asks the real VerifyVoteExtension handler whether the consensus engine would count this precommit.
func (c *Chain) VerifyExt(height int64, v *ValKeys, ext []byte) (ok bool, panicked string) {
	defer func() {
		if r := recover(); r != nil {
			ok = false
			panicked = "panic in VerifyVoteExtension"
		}
	}()
	res, err := c.App.VerifyVoteExtension(&abci.RequestVerifyVoteExtension{
		Hash: []byte("blockhash"), ValidatorAddress: v.ConsAdr, Height: height, VoteExtension: ext,
	})
	if err != nil {
		return false, ""
	}
	return res.Status == abci.ResponseVerifyVoteExtension_ACCEPT, ""
}
