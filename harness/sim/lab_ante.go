package sim

import (
	"fmt"
	"math/big"
	"time"

	rante "github.com/tellor-io/layer/x/reporter/ante"
	reportertypes "github.com/tellor-io/layer/x/reporter/types"

	"cosmossdk.io/math"

	sdk "github.com/cosmos/cosmos-sdk/types"
	banktypes "github.com/cosmos/cosmos-sdk/x/bank/types"
	stakingtypes "github.com/cosmos/cosmos-sdk/x/staking/types"
)

// ---- C18: staking transactions cannot move bonded stake more than 5% per 12-hour period ----

func c18One(l *LabCtx) {
	r := l.R
	a := l.C.App
	cur, err := a.StakingKeeper.TotalBondedTokens(l.Ctx)
	if err != nil || !cur.IsPositive() {
		return
	}
	// baseline relative to the current bonded amount: inside the band, on its edges, outside
	num := []int64{100, 100, 100, 96, 95, 105, 104, 90, 110, 101, 99, 0, 1, 1000}[r.Pick(14)]
	var base math.Int
	switch num {
	case 0:
		// what genesis records: an amount of zero (every addition exceeds 105 % of it, no removal goes below 95 % of it)
		base = math.ZeroInt()
	case 1:
		base = math.NewInt(int64(1 + r.Pick(40))) // a recorded amount of a few units
	case 1000:
		base = cur.MulRaw(int64(2 + r.Pick(9))) // far above the current stake
	default:
		base = cur.MulRaw(100).QuoRaw(num).AddRaw(int64(r.Pick(5)) - 2)
	}
	if base.IsNegative() {
		return
	}
	exp := l.Ctx.BlockTime().Add(time.Hour)
	if err := a.ReporterKeeper.Tracker.Set(l.Ctx, reportertypes.StakeTracker{Expiration: &exp, Amount: base}); err != nil {
		return
	}
	// room up / down in exact integers: floor(1.05*base)-cur and cur-ceil(0.95*base)
	up := base.MulRaw(21).QuoRaw(20).Sub(cur)
	down := cur.Sub(base.MulRaw(19).AddRaw(19).QuoRaw(20))
	nmsg := 1 + r.Pick(5)
	if r.Chance(0.1) {
		nmsg = 6 + r.Pick(3)
	}
	del, val := l.C.W.Users[0], l.C.W.Vals[0]
	var msgs []sdk.Msg
	addSum, subSum := math.ZeroInt(), math.ZeroInt()
	mix := r.Pick(4) // 0 adding only, 1 removing only, 2 mixed, 3 adding kinds mixed
	amtFor := func(room math.Int) math.Int {
		if !room.IsPositive() {
			return math.NewInt(int64(1 + r.Pick(1000)))
		}
		switch r.Pick(6) {
		case 0:
			return room // exactly the room: one such message passes, two do not
		case 1:
			return room.AddRaw(1)
		case 2:
			return room.QuoRaw(int64(nmsg)).AddRaw(1) // each passes, the sum exceeds by a little
		case 3:
			return room.QuoRaw(int64(nmsg)) // the sum just fits
		case 4:
			return room.MulRaw(2).QuoRaw(3)
		default:
			return math.NewInt(int64(1 + r.Pick(1_000_000)))
		}
	}
	for i := 0; i < nmsg; i++ {
		adding := mix == 0 || mix == 3 || (mix == 2 && r.Chance(0.5))
		if adding {
			amt := amtFor(up)
			if !amt.IsPositive() {
				amt = math.OneInt()
			}
			coin := sdk.NewCoin(Denom, amt)
			switch r.Pick(4) {
			case 0:
				msgs = append(msgs, &stakingtypes.MsgDelegate{DelegatorAddress: del.Bech(), ValidatorAddress: val.ValAdr.String(), Amount: coin})
			case 1:
				msgs = append(msgs, &stakingtypes.MsgBeginRedelegate{DelegatorAddress: del.Bech(), ValidatorSrcAddress: val.ValAdr.String(), ValidatorDstAddress: l.C.W.Vals[1].ValAdr.String(), Amount: coin})
			case 2:
				msgs = append(msgs, &stakingtypes.MsgCancelUnbondingDelegation{DelegatorAddress: del.Bech(), ValidatorAddress: val.ValAdr.String(), Amount: coin, CreationHeight: 1})
			default:
				msgs = append(msgs, &stakingtypes.MsgCreateValidator{ValidatorAddress: val.ValAdr.String(), Value: coin})
			}
			addSum = addSum.Add(amt)
		} else {
			amt := amtFor(down)
			if !amt.IsPositive() {
				amt = math.OneInt()
			}
			msgs = append(msgs, &stakingtypes.MsgUndelegate{DelegatorAddress: del.Bech(), ValidatorAddress: val.ValAdr.String(), Amount: sdk.NewCoin(Denom, amt)})
			subSum = subSum.Add(amt)
		}
	}
	// messages that move no stake, mixed in at the front, in between or at the end ("all staking messages of the
	// transaction together" - whatever else the transaction carries)
	other := "none"
	if r.Chance(0.35) {
		extra := func() sdk.Msg {
			if r.Chance(0.5) {
				return &banktypes.MsgSend{FromAddress: del.Bech(), ToAddress: l.C.W.Users[1].Bech(), Amount: sdk.NewCoins(sdk.NewInt64Coin(Denom, 1))}
			}
			return &reportertypes.MsgSelectReporter{SelectorAddress: del.Bech(), ReporterAddress: l.C.W.Vals[0].Op.Bech()}
		}
		switch r.Pick(3) {
		case 0:
			msgs = append([]sdk.Msg{extra()}, msgs...)
			other = "first"
		case 1:
			msgs = append(msgs, extra())
			other = "last"
		default:
			k := r.Pick(len(msgs) + 1)
			msgs = append(msgs[:k], append([]sdk.Msg{extra()}, msgs[k:]...)...)
			msgs = append(msgs, extra())
			other = "between-and-last"
		}
	}
	tb := a.TxConfig().NewTxBuilder()
	if err := tb.SetMsgs(msgs...); err != nil {
		return
	}
	accepted := false
	dec := rante.NewTrackStakeChangesDecorator(a.ReporterKeeper, a.StakingKeeper)
	_, err = dec.AnteHandle(l.Ctx, tb.GetTx(), false, func(ctx sdk.Context, tx sdk.Tx, simulate bool) (sdk.Context, error) {
		accepted = true
		return ctx, nil
	})
	l.St.Count("c18.ante.evals")
	// exact: cur+add <= 1.05*base  <=>  20*(cur+add) <= 21*base ; cur-sub >= 0.95*base <=> 20*(cur-sub) >= 19*base
	upOK := new(big.Int).Mul(cur.Add(addSum).BigInt(), big.NewInt(20)).Cmp(new(big.Int).Mul(base.BigInt(), big.NewInt(21))) <= 0
	downOK := new(big.Int).Mul(cur.Sub(subSum).BigInt(), big.NewInt(20)).Cmp(new(big.Int).Mul(base.BigInt(), big.NewInt(19))) >= 0
	// a side of the band only binds a transaction that moves bonded stake towards it ("stays at or below/above")
	if !addSum.IsPositive() {
		upOK = true
	}
	if !subSum.IsPositive() {
		downOK = true
	}
	perMsgOnly := false // every message alone would pass
	if !upOK || !downOK {
		perMsgOnly = true
		for _, m := range msgs {
			var one math.Int
			add := true
			switch x := m.(type) {
			case *stakingtypes.MsgDelegate:
				one = x.Amount.Amount
			case *stakingtypes.MsgBeginRedelegate:
				one = x.Amount.Amount
			case *stakingtypes.MsgCancelUnbondingDelegation:
				one = x.Amount.Amount
			case *stakingtypes.MsgCreateValidator:
				one = x.Value.Amount
			case *stakingtypes.MsgUndelegate:
				one, add = x.Amount.Amount, false
			default:
				continue
			}
			if add && new(big.Int).Mul(cur.Add(one).BigInt(), big.NewInt(20)).Cmp(new(big.Int).Mul(base.BigInt(), big.NewInt(21))) > 0 {
				perMsgOnly = false
			}
			if !add && new(big.Int).Mul(cur.Sub(one).BigInt(), big.NewInt(20)).Cmp(new(big.Int).Mul(base.BigInt(), big.NewInt(19))) < 0 {
				perMsgOnly = false
			}
		}
	}
	l.St.Bucket("c18|msgs=%d|mix=%d|base=%d%%|accepted=%v|within=%v|each-alone-passes=%v", minInt(nmsg, 6), mix, num, accepted, upOK && downOK, perMsgOnly)
	l.St.Bucket("c18|other-messages=%s|accepted=%v|within=%v", other, accepted, upOK && downOK)
	if accepted && (!upOK || !downOK) {
		side := "increase"
		if !downOK {
			side = "decrease"
		}
		l.Violate("C18", "c18", fmt.Sprintf("tx-admitted-beyond-5pct:%s:each-message-alone-passes=%v", side, perMsgOnly), map[string]interface{}{
			"current": cur.String(), "baseline": base.String(), "add_sum": addSum.String(), "sub_sum": subSum.String(), "msgs": len(msgs), "err": fmt.Sprint(err)})
	}
}

func init() {
	RegisterLab(&LabDef{
		ID:      "C18",
		Inputs:  map[string]int{"quick": 8000, "thorough": 80000},
		Batches: map[string]int{"quick": 8, "thorough": 16},
		One:     c18One,
	})
}
