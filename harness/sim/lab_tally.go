package sim

import (
	"fmt"
	"strings"
	"time"

	disputetypes "github.com/tellor-io/layer/x/dispute/types"

	"cosmossdk.io/collections"
	"cosmossdk.io/math"

	sdk "github.com/cosmos/cosmos-sdk/types"
)

// C12 (lab part): TallyVote on directly written vote distributions ("synthetic" state: the records a sequence of
// votes would leave are written to a branch of the store). Every distribution must yield a result - the only
// admissible error is "still voting" before the deadline without quorum - and the result must equal the
// exact-rational evaluation of the stated formula.

func c12LabOne(l *LabCtx) {
	r := l.R
	k := l.C.App.DisputeKeeper
	now := l.Ctx.BlockTime()
	id := uint64(1_000_000 + l.N)
	hash := []byte(fmt.Sprintf("synthetic-dispute-%d", l.N))
	pick := func() uint64 {
		switch r.Pick(7) {
		case 0:
			return 0
		case 1:
			return 1
		case 2:
			return uint64(1 + r.Pick(5))
		case 3:
			return 1_000_000
		case 4:
			return uint64(r.Int63n(1 << 40))
		case 5:
			return 1<<62 + uint64(r.Int63n(1<<61)) // sums near 2^64
		default:
			return uint64(r.Int63n(1 << 20))
		}
	}
	group := func(participates bool, equal bool) disputetypes.VoteCounts {
		if !participates {
			return disputetypes.VoteCounts{}
		}
		if equal {
			x := pick()
			if x == 0 {
				x = 7
			}
			switch r.Pick(3) {
			case 0:
				return disputetypes.VoteCounts{Support: x, Against: x}
			case 1:
				return disputetypes.VoteCounts{Support: x, Against: x, Invalid: x}
			default:
				return disputetypes.VoteCounts{Against: x, Invalid: x}
			}
		}
		c := disputetypes.VoteCounts{Support: pick(), Against: pick(), Invalid: pick()}
		if c.Support > 1<<62 && c.Against > 1<<62 {
			c.Invalid = 0 // keep each group's sum below 2^64 (a uint64 counter cannot hold more)
			c.Against = 1<<63 - 1 - c.Support/2
		}
		return c
	}
	pattern := r.Pick(16) // which of the four groups participate
	equal := r.Chance(0.3)
	counts := disputetypes.StakeholderVoteCounts{
		Users:        group(pattern&1 != 0, equal),
		Reporters:    group(pattern&2 != 0, equal),
		Tokenholders: group(pattern&4 != 0, equal),
	}
	teamVotes := pattern&8 != 0
	teamChoice := disputetypes.VoteEnum(r.Pick(3))
	if teamVotes {
		switch teamChoice {
		case disputetypes.VoteEnum_VOTE_SUPPORT:
			counts.Team.Support = 1
		case disputetypes.VoteEnum_VOTE_AGAINST:
			counts.Team.Against = 1
		default:
			counts.Team.Invalid = 1
		}
	}
	sum := func(c disputetypes.VoteCounts) math.Int {
		return math.NewIntFromUint64(c.Support).Add(math.NewIntFromUint64(c.Against)).Add(math.NewIntFromUint64(c.Invalid))
	}
	// group totals: at least what was cast (a group cannot cast more than it holds), sometimes exactly, sometimes zero-cast
	totalFor := func(c disputetypes.VoteCounts) math.Int {
		s := sum(c)
		switch r.Pick(4) {
		case 0:
			return s
		case 1:
			return s.MulRaw(2).AddRaw(1)
		case 2:
			return s.MulRaw(int64(3 + r.Pick(50))).AddRaw(int64(r.Pick(1000)))
		default:
			return s.AddRaw(int64(r.Pick(3)))
		}
	}
	info := disputetypes.BlockInfo{TotalReporterPower: totalFor(counts.Reporters), TotalUserTips: totalFor(counts.Users)}
	afterDeadline := r.Chance(0.6)
	afterDisputeEnd := afterDeadline && r.Chance(0.3)
	voteEnd := now.Add(2 * 24 * time.Hour)
	end := now.Add(3 * 24 * time.Hour)
	if afterDeadline {
		voteEnd = now.Add(-time.Millisecond)
	}
	if afterDisputeEnd {
		end = now.Add(-time.Millisecond)
	}
	d := disputetypes.Dispute{HashId: hash, DisputeId: id, DisputeCategory: disputetypes.Warning, DisputeStatus: disputetypes.Voting, DisputeStartTime: now, DisputeEndTime: end,
		DisputeRound: 1, SlashAmount: math.NewInt(10000), BurnAmount: math.NewInt(500), DisputeFee: math.NewInt(9500), FeeTotal: math.NewInt(10000), PrevDisputeIds: []uint64{id}, Open: true, BlockNumber: 1,
		VoterReward: math.ZeroInt()}
	must := func(err error) bool {
		if err != nil {
			l.St.Count("c12lab.setup-error")
			return false
		}
		return true
	}
	if !must(k.Disputes.Set(l.Ctx, id, d)) || !must(k.Votes.Set(l.Ctx, id, disputetypes.Vote{Id: id, VoteStart: now.Add(-time.Hour), VoteEnd: voteEnd})) ||
		!must(k.BlockInfo.Set(l.Ctx, hash, info)) {
		return
	}
	anyCast := pattern != 0
	if anyCast {
		if !must(k.VoteCountsByGroup.Set(l.Ctx, id, counts)) {
			return
		}
		// a voter record so that the "somebody voted" branch is taken
		_ = k.Voter.Set(l.Ctx, collections.Join(id, l.C.W.Users[0].Addr.Bytes()), disputetypes.Voter{Vote: disputetypes.VoteEnum_VOTE_SUPPORT, VoterPower: math.OneInt(), ReporterPower: math.ZeroInt(), TokenholderPower: math.OneInt()})
	}
	if teamVotes {
		team, _ := k.GetTeamAddress(l.Ctx)
		_ = k.Voter.Set(l.Ctx, collections.Join(id, team.Bytes()), disputetypes.Voter{Vote: teamChoice, VoterPower: math.NewInt(25000000), ReporterPower: math.ZeroInt(), TokenholderPower: math.ZeroInt()})
	}
	var err error
	func() {
		defer func() {
			if rc := recover(); rc != nil {
				err = fmt.Errorf("PANIC: %v", rc)
			}
		}()
		err = k.TallyVote(l.Ctx, id)
	}()
	l.St.Count("c12lab.tally.evals")
	v, _ := k.Votes.Get(l.Ctx, id)
	res, quorum := resultClass(v.VoteResult)
	l.St.Bucket("c12lab|groups=%04b|equal=%v|after-vote-end=%v|after-dispute-end=%v|err=%v|result=%s|quorum=%v", pattern, equal, afterDeadline, afterDisputeEnd, err != nil, res, quorum)
	dm := NewDisputeMonitor(NewStats())
	ref, _ := dm.referenceTally(l.C, l.Ctx, d, info, true)
	detail := map[string]interface{}{"counts": fmt.Sprintf("%+v", counts), "totals": fmt.Sprintf("rep=%s tips=%s", info.TotalReporterPower, info.TotalUserTips), "after_vote_end": afterDeadline, "err": fmt.Sprint(err), "recorded": v.VoteResult.String(), "reference": ref.result, "reference_quorum": ref.quorum}
	if err != nil {
		stillVoting := strings.EqualFold(err.Error(), disputetypes.ErrNoQuorumStillVoting.Error())
		if stillVoting && !afterDeadline && (!ref.quorum || ref.near) {
			return // no quorum yet and the period still runs: the only admissible non-result
		}
		l.Violate("C12", "c12lab", "tally-returns-error-for-a-vote-distribution:"+NormalizeErr(err.Error()), detail)
		return
	}
	if res == "none" {
		l.Violate("C12", "c12lab", "tally-left-no-result", detail)
		return
	}
	if ref.near {
		l.St.Count("c12lab.near-boundary-skipped")
		return
	}
	if !anyCast {
		return // nobody voted: recorded as no-quorum invalid by rule
	}
	if ref.quorum != quorum {
		l.Violate("C12", "c12lab", fmt.Sprintf("quorum-differs:recorded=%v:reference=%v", quorum, ref.quorum), detail)
		return
	}
	if ref.result != res {
		class := "other"
		thCast := counts.Tokenholders.Support + counts.Tokenholders.Against + counts.Tokenholders.Invalid
		if quorum && thCast > 0 && dm.firstStageQuorum(counts, info) {
			class = "tokenholders-ignored-when-other-groups-reach-quorum"
		}
		l.Violate("C12", "dispute", "tally-result-differs:"+class, detail)
	}
}

var _ = sdk.AccAddress{}

func init() {
	RegisterLab(&LabDef{
		ID:      "C12lab",
		Inputs:  map[string]int{"quick": 12000, "thorough": 160000},
		Batches: map[string]int{"quick": 8, "thorough": 16},
		One:     c12LabOne,
	})
}
