package sim

import (
	"encoding/json"
	"fmt"
	"os"
	"sync"

	abci "github.com/cometbft/cometbft/abci/types"

	"github.com/cosmos/cosmos-sdk/client"
	sdk "github.com/cosmos/cosmos-sdk/types"
	txsigning "github.com/cosmos/cosmos-sdk/types/tx/signing"
	authsigning "github.com/cosmos/cosmos-sdk/x/auth/signing"
)

const (
	DefaultGas = 2_000_000
	DefaultFee = 10_000 // loya; 2M gas * 0.0025 = 5000 minimum
)

// TxBuilder signs real transactions for the accounts of a world. It reads account number and
// sequence from committed state and counts the txs it has handed out for the current block.
type TxBuilder struct {
	c       *Chain
	pending map[string]uint64 // signer -> txs built since last commit
	height  int64
}

func NewTxBuilder(c *Chain) *TxBuilder { return &TxBuilder{c: c, pending: map[string]uint64{}} }

func (b *TxBuilder) reset() {
	if b.height != b.c.Height {
		b.pending = map[string]uint64{}
		b.height = b.c.Height
	}
}

// Used reports whether the signer already has a tx in the block being assembled.
func (b *TxBuilder) Used(a *Account) bool {
	b.reset()
	return b.pending[a.Bech()] > 0
}

// Build signs msgs with the given signers (first signer pays the fee).
func (b *TxBuilder) Build(fee int64, gas uint64, signers []*Account, msgs ...sdk.Msg) ([]byte, error) {
	b.reset()
	txCfg := b.c.App.TxConfig()
	ctx := b.c.CommittedCtx()
	tb := txCfg.NewTxBuilder()
	if err := tb.SetMsgs(msgs...); err != nil {
		return nil, err
	}
	tb.SetGasLimit(gas)
	tb.SetFeeAmount(sdk.NewCoins(sdk.NewInt64Coin(Denom, fee)))
	type sinfo struct {
		acc      *Account
		num, seq uint64
	}
	var infos []sinfo
	for _, s := range signers {
		acc := b.c.App.AccountKeeper.GetAccount(ctx, s.Addr)
		if acc == nil {
			return nil, fmt.Errorf("signer %s has no account", s.Name)
		}
		infos = append(infos, sinfo{s, acc.GetAccountNumber(), acc.GetSequence() + b.pending[s.Bech()]})
	}
	var sigs []txsigning.SignatureV2
	for _, in := range infos {
		sigs = append(sigs, txsigning.SignatureV2{
			PubKey:   in.acc.Priv.PubKey(),
			Data:     &txsigning.SingleSignatureData{SignMode: txsigning.SignMode_SIGN_MODE_DIRECT},
			Sequence: in.seq,
		})
	}
	if err := tb.SetSignatures(sigs...); err != nil {
		return nil, err
	}
	sigs = sigs[:0]
	for _, in := range infos {
		sd := authsigning.SignerData{ChainID: ChainID, AccountNumber: in.num, Sequence: in.seq, PubKey: in.acc.Priv.PubKey(), Address: in.acc.Bech()}
		sig, err := signWithPriv(ctx, txCfg, sd, tb, in.acc, in.seq)
		if err != nil {
			return nil, err
		}
		sigs = append(sigs, sig)
	}
	if err := tb.SetSignatures(sigs...); err != nil {
		return nil, err
	}
	bz, err := txCfg.TxEncoder()(tb.GetTx())
	if err != nil {
		return nil, err
	}
	for _, s := range signers {
		b.pending[s.Bech()]++
	}
	return bz, nil
}

// Forget takes back the last transaction built for the signer (it is not going into the block being assembled).
func (b *TxBuilder) Forget(a *Account) {
	if b.pending[a.Bech()] > 0 {
		b.pending[a.Bech()]--
	}
}

func signWithPriv(ctx sdk.Context, txCfg client.TxConfig, sd authsigning.SignerData, tb client.TxBuilder, acc *Account, seq uint64) (txsigning.SignatureV2, error) {
	bz, err := authsigning.GetSignBytesAdapter(ctx, txCfg.SignModeHandler(), txsigning.SignMode_SIGN_MODE_DIRECT, sd, tb.GetTx())
	if err != nil {
		return txsigning.SignatureV2{}, err
	}
	sig, err := acc.Priv.Sign(bz)
	if err != nil {
		return txsigning.SignatureV2{}, err
	}
	return txsigning.SignatureV2{
		PubKey:   acc.Priv.PubKey(),
		Data:     &txsigning.SingleSignatureData{SignMode: txsigning.SignMode_SIGN_MODE_DIRECT, Signature: sig},
		Sequence: seq,
	}, nil
}

// Tx is the usual single-signer transaction.
func (b *TxBuilder) Tx(signer *Account, msgs ...sdk.Msg) []byte {
	bz, err := b.Build(DefaultFee, DefaultGas, []*Account{signer}, msgs...)
	if err != nil {
		return nil
	}
	return bz
}

// Recorder appends requests and observations to a JSONL file (flushed per line, so a process-fatal
// failure still leaves the last request on disk).
type Recorder struct {
	mu sync.Mutex
	f  *os.File
}

func NewRecorder(path string) (*Recorder, error) {
	f, err := os.Create(path)
	if err != nil {
		return nil, err
	}
	return &Recorder{f: f}, nil
}

func (r *Recorder) Line(kind string, v interface{}) {
	if r == nil {
		return
	}
	r.mu.Lock()
	defer r.mu.Unlock()
	bz, _ := json.Marshal(map[string]interface{}{"k": kind, "v": v})
	r.f.Write(append(bz, '\n'))
}

func (r *Recorder) Finalize(req *abci.RequestFinalizeBlock) {
	if r == nil {
		return
	}
	bz, err := req.Marshal()
	if err != nil {
		return
	}
	r.Line("finalize", bz)
}

func (r *Recorder) Close() {
	if r != nil {
		r.f.Close()
	}
}
