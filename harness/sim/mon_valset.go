package sim

import (
	"bytes"
	"encoding/hex"
	"encoding/json"
	"fmt"
	"math/big"
	"sort"
	"time"

	cmtproto "github.com/cometbft/cometbft/proto/tendermint/types"
	"github.com/tellor-io/layer/app"
	bridgetypes "github.com/tellor-io/layer/x/bridge/types"

	"verif/harness/ref"

	sdk "github.com/cosmos/cosmos-sdk/types"
)

// ---------------------------------------------------------------------------------------------
// C16: validator-set checkpoints form a chain an EVM light client can always follow

type cpRec struct {
	idx   uint64
	ts    uint64
	set   bridgetypes.BridgeValidatorSet
	par   bridgetypes.ValidatorCheckpointParams
	steps bool // the step from the previous checkpoint to this one was accepted by the contract model
}

type C16Monitor struct {
	BaseMonitor
	st      *Stats
	cps     []cpRec
	haveIdx bool
	lastIdx uint64
	// sent: the monitor's own record of who signed which checkpoint - timestamp -> EVM address (hex) of every member of
	// the previous set whose vote extension, part of an accepted commit, carried a valid signature over that checkpoint
	sent map[uint64]map[string]bool
}

func NewC16Monitor(st *Stats) *C16Monitor { return &C16Monitor{st: st} }
func (m *C16Monitor) Name() string        { return "c16" }

type expVal struct {
	addr  []byte
	power uint64
}

// expectedSets recomputes from x/staking: the validators with a registered EVM address and power > 0, once
// counting only bonded validators and once every validator (the statement says "non-zero power").
func expectedSets(c *Chain, ctx sdk.Context) (bonded, all []expVal) {
	vals, _ := c.App.StakingKeeper.GetAllValidators(ctx)
	for _, v := range vals {
		evm, err := c.App.BridgeKeeper.OperatorToEVMAddressMap.Get(ctx, v.OperatorAddress)
		if err != nil {
			continue
		}
		p := v.GetConsensusPower(sdk.DefaultPowerReduction)
		if p <= 0 {
			continue
		}
		e := expVal{evm.EVMAddress, uint64(p)}
		all = append(all, e)
		if v.IsBonded() {
			bonded = append(bonded, e)
		}
	}
	srt := func(s []expVal) {
		sort.Slice(s, func(i, j int) bool {
			if s[i].power != s[j].power {
				return s[i].power > s[j].power
			}
			return bytes.Compare(s[i].addr, s[j].addr) < 0
		})
	}
	srt(bonded)
	srt(all)
	return
}

func describeSet(s bridgetypes.BridgeValidatorSet) []string {
	var out []string
	for _, v := range s.BridgeValidatorSet {
		out = append(out, fmt.Sprintf("%x:%d", v.EthereumAddress[:3], v.Power))
	}
	return out
}

func describeExp(s []expVal) []string {
	var out []string
	for _, v := range s {
		out = append(out, fmt.Sprintf("%x:%d", v.addr[:3], v.power))
	}
	return out
}

func powerShift(old bridgetypes.BridgeValidatorSet, cur []expVal) (delta, total *big.Int) {
	m := map[string]*big.Int{}
	total = new(big.Int)
	for _, v := range old.BridgeValidatorSet {
		// two operators can be registered with one EVM address (known finding F26): their powers add up
		if x, ok := m[string(v.EthereumAddress)]; ok {
			x.Add(x, new(big.Int).SetUint64(v.Power))
		} else {
			m[string(v.EthereumAddress)] = new(big.Int).SetUint64(v.Power)
		}
		total.Add(total, new(big.Int).SetUint64(v.Power))
	}
	for _, v := range cur {
		if x, ok := m[string(v.addr)]; ok {
			x.Sub(x, new(big.Int).SetUint64(v.power))
		} else {
			m[string(v.addr)] = new(big.Int).Neg(new(big.Int).SetUint64(v.power))
		}
	}
	delta = new(big.Int)
	for _, x := range m {
		delta.Add(delta, new(big.Int).Abs(x))
	}
	return
}

func (m *C16Monitor) AfterCommit(c *Chain, ctx sdk.Context, br *BlockResult) {
	if br.Height < 2 {
		return
	}
	sh, err := loadShapes()
	if err != nil {
		return
	}
	bk := c.App.BridgeKeeper
	idx, err := bk.LatestCheckpointIdx.Get(ctx)
	bondedSet, allSet := expectedSets(c, ctx)
	now := uint64(ctx.BlockTime().UnixMilli())
	cut := err == nil && (!m.haveIdx || idx.Index != m.lastIdx)
	m.st.Count("c16.rule.evals")
	// ---- the update rule ----
	if len(m.cps) > 0 && len(allSet) > 0 {
		last := m.cps[len(m.cps)-1]
		age := time.Duration(now-last.ts) * time.Millisecond
		inBand := age >= 14*24*time.Hour-2*time.Second && age <= 14*24*time.Hour+2*time.Second
		stale := age > 14*24*time.Hour
		// 5% rule evaluated for both readings of "power"
		ge5 := func(cur []expVal) bool {
			d, t := powerShift(last.set, cur)
			if t.Sign() == 0 {
				return false
			}
			return new(big.Int).Mul(d, big.NewInt(20)).Cmp(t) >= 0
		}
		shouldA, shouldB := ge5(bondedSet) || stale, ge5(allSet) || stale
		if !inBand {
			cls := "none"
			if stale {
				cls = "stale"
			} else if shouldA || shouldB {
				cls = ">=5%"
			}
			m.st.Bucket("c16|rule|%s|cut=%v", cls, cut)
			if cut && !shouldA && !shouldB {
				c.Violate("C16", "c16", "checkpoint-cut-without-5pct-shift-or-staleness", map[string]interface{}{"age": age.String()})
			}
			if !cut && shouldA && shouldB {
				c.Violate("C16", "c16", "checkpoint-not-cut-although-rule-demands", map[string]interface{}{"age": age.String(), "stale": stale, "last_checkpoint_set": describeSet(last.set), "bonded_now": describeExp(bondedSet), "all_now": describeExp(allSet)})
			}
		}
	} else if len(m.cps) == 0 && len(allSet) > 0 && !cut && m.haveIdx {
		c.Violate("C16", "c16", "no-first-checkpoint", nil)
	}
	if !cut {
		m.followSteps(c, ctx, sh)
		return
	}
	// ---- a checkpoint was cut in this block ----
	m.haveIdx, m.lastIdx = true, idx.Index
	tsRec, err := bk.ValidatorCheckpointIdxMap.Get(ctx, idx.Index)
	if err != nil {
		c.Violate("C16", "c16", "checkpoint-index-without-timestamp", map[string]interface{}{"idx": idx.Index})
		return
	}
	set, err1 := bk.BridgeValsetByTimestampMap.Get(ctx, tsRec.Timestamp)
	par, err2 := bk.ValidatorCheckpointParamsMap.Get(ctx, tsRec.Timestamp)
	cur, err3 := bk.BridgeValset.Get(ctx)
	if err1 != nil || err2 != nil || err3 != nil {
		c.Violate("C16", "c16", "checkpoint-records-missing", map[string]interface{}{"idx": idx.Index})
		return
	}
	m.st.Count("c16.checkpoint.evals")
	m.st.Bucket("c16|checkpoint|first=%v|size=%d|nonbonded-with-power=%v", len(m.cps) == 0, minInt(len(set.BridgeValidatorSet), 6), len(allSet) != len(bondedSet))
	// membership and order
	same := func(exp []expVal) bool {
		if len(exp) != len(set.BridgeValidatorSet) {
			return false
		}
		for i, v := range set.BridgeValidatorSet {
			if !bytes.Equal(v.EthereumAddress, exp[i].addr) || v.Power != exp[i].power {
				return false
			}
		}
		return true
	}
	if !same(bondedSet) && !same(allSet) {
		c.Violate("C16", "c16", "stored-set-not-the-registered-validators-in-order", map[string]interface{}{"stored": len(set.BridgeValidatorSet), "bonded": len(bondedSet), "all": len(allSet)})
	}
	a, _ := set.Marshal()
	b, _ := cur.Marshal()
	if !bytes.Equal(a, b) {
		c.Violate("C16", "c16", "current-valset-differs-from-checkpointed-set", nil)
	}
	if tsRec.Timestamp != now {
		c.Violate("C16", "c16", "checkpoint-timestamp-not-block-time", map[string]interface{}{"ts": tsRec.Timestamp, "now": now})
	}
	// consistency of hash / threshold / checkpoint with the set (independent encoder)
	var rset []ref.Validator
	var total uint64
	for _, v := range set.BridgeValidatorSet {
		rset = append(rset, ref.Validator{Addr: v.EthereumAddress, Power: v.Power})
		total += v.Power
	}
	wantHash := sh.ValsetHash(rset)
	wantThr := total * 2 / 3
	wantCp, _ := sh.CheckpointOf(new(big.Int).SetUint64(wantThr), new(big.Int).SetUint64(tsRec.Timestamp), wantHash)
	if !bytes.Equal(par.ValsetHash, wantHash) || par.PowerThreshold != wantThr || !bytes.Equal(par.Checkpoint, wantCp) || par.Timestamp != tsRec.Timestamp {
		c.Violate("C16", "c16", "stored-hash-threshold-checkpoint-inconsistent-with-set", map[string]interface{}{"idx": idx.Index})
	}
	if cpNow, err := bk.ValidatorCheckpoint.Get(ctx); err != nil || !bytes.Equal(cpNow.Checkpoint, wantCp) {
		c.Violate("C16", "c16", "current-checkpoint-not-latest", nil)
	}
	// order of checkpoints
	if len(m.cps) > 0 {
		prev := m.cps[len(m.cps)-1]
		if idx.Index != prev.idx+1 {
			c.Violate("C16", "c16", "checkpoint-index-not-contiguous", map[string]interface{}{"prev": prev.idx, "new": idx.Index})
		}
		if tsRec.Timestamp <= prev.ts {
			c.Violate("C16", "c16", "checkpoint-timestamp-not-increasing", map[string]interface{}{"prev": prev.ts, "new": tsRec.Timestamp})
		}
		sigs, err := bk.BridgeValsetSignaturesMap.Get(ctx, tsRec.Timestamp)
		if err != nil || len(sigs.Signatures) != len(prev.set.BridgeValidatorSet) {
			c.Violate("C16", "c16", "signature-slots-not-one-per-member-of-previous-set", map[string]interface{}{"slots": len(sigs.Signatures), "previous_set": len(prev.set.BridgeValidatorSet)})
		}
	} else if idx.Index != 0 {
		c.Violate("C16", "c16", "first-checkpoint-index-not-zero", map[string]interface{}{"idx": idx.Index})
	}
	if ti, err := bk.ValsetTimestampToIdxMap.Get(ctx, tsRec.Timestamp); err != nil || ti.Index != idx.Index {
		c.Violate("C16", "c16", "timestamp-to-index-map-inconsistent", nil)
	}
	m.cps = append(m.cps, cpRec{idx: idx.Index, ts: tsRec.Timestamp, set: set, par: par})
	m.followSteps(c, ctx, sh)
}

// followSteps: for the newest checkpoint whose step has not been accepted yet, feed the contract model with what
// the chain stored as soon as members holding more than 2/3 of the previous set's power have signed.
func (m *C16Monitor) followSteps(c *Chain, ctx sdk.Context, sh *ref.Shapes) {
	// every step not yet accepted, newest first (a checkpoint that already has a successor still has to be reachable:
	// the light client walks the chain of checkpoints one by one; added after C16-j)
	for i := len(m.cps) - 1; i >= 1 && i >= len(m.cps)-4; i-- {
		m.followStep(c, ctx, sh, i)
	}
}

// BeginBlockEntry (the state after the PreBlocker stored the last commit's bridge data): the monitor notes for itself
// which members of the previous set sent a valid signature over which checkpoint.
func (m *C16Monitor) BeginBlockEntry(c *Chain, ctx sdk.Context) {
	for _, s := range sentExtensions(c) {
		sig := s.ext.ValsetSignature
		if !s.ok || len(sig.Signature) == 0 {
			continue
		}
		for i := 1; i < len(m.cps); i++ {
			if m.cps[i].ts != sig.Timestamp {
				continue
			}
			addr := s.val.EVMAddress()
			if _, ok := ref.SigFromChain(sig.Signature, m.cps[i].par.Checkpoint, addr); !ok {
				continue
			}
			for _, v := range m.cps[i-1].set.BridgeValidatorSet {
				if bytes.Equal(v.EthereumAddress, addr) {
					if m.sent == nil {
						m.sent = map[uint64]map[string]bool{}
					}
					if m.sent[sig.Timestamp] == nil {
						m.sent[sig.Timestamp] = map[string]bool{}
					}
					m.sent[sig.Timestamp][string(addr)] = true
					m.st.Bucket("c16|signature-sent|checkpoint-has-successor=%v", i < len(m.cps)-1)
				}
			}
		}
	}
}

func (m *C16Monitor) followStep(c *Chain, ctx sdk.Context, sh *ref.Shapes, i int) {
	cur, prev := &m.cps[i], m.cps[i-1]
	if cur.steps {
		return
	}
	sigs, err := c.App.BridgeKeeper.BridgeValsetSignaturesMap.Get(ctx, cur.ts)
	if err != nil || len(sigs.Signatures) != len(prev.set.BridgeValidatorSet) {
		return
	}
	var prevSet []ref.Validator
	var total, signed uint64
	rsigs := make([]ref.Sig, len(sigs.Signatures))
	unusable := 0
	for j, v := range prev.set.BridgeValidatorSet {
		prevSet = append(prevSet, ref.Validator{Addr: v.EthereumAddress, Power: v.Power})
		total += v.Power
		if len(sigs.Signatures[j]) == 0 {
			continue
		}
		s, ok := ref.SigFromChain(sigs.Signatures[j], cur.par.Checkpoint, v.EthereumAddress)
		if !ok {
			// a byzantine validator may have sent garbage for its own slot; a relayer leaves such a slot empty
			unusable++
			continue
		}
		rsigs[j] = s
		signed += v.Power
	}
	// "have signed" by the monitor's own record: members whose valid signature travelled in an accepted commit
	var ownSigned uint64
	dup := map[string]bool{}
	hasDup := false
	for _, v := range prev.set.BridgeValidatorSet {
		if dup[string(v.EthereumAddress)] {
			hasDup = true // two operators under one EVM address (known finding F26): slots are ambiguous, own record not used
		}
		dup[string(v.EthereumAddress)] = true
		if m.sent[cur.ts][string(v.EthereumAddress)] {
			ownSigned += v.Power
		}
	}
	if hasDup {
		ownSigned = 0
	}
	if signed*3 <= total*2 && ownSigned*3 <= total*2 {
		return
	}
	if signed*3 <= total*2 {
		m.st.Count("c16.contract-step.triggered-by-own-record-of-signers")
	}
	// the property speaks of validator sets "with total power of at least 2 whole tokens": below that two thirds round
	// down to a zero threshold, which the contract refuses by design
	var newTotal uint64
	for _, v := range cur.set.BridgeValidatorSet {
		newTotal += v.Power
	}
	if newTotal < 2 || total < 2 {
		m.st.Count("c16.contract-step.total-power-below-2-skipped")
		cur.steps = true
		return
	}
	model := &ref.Bridge{Sh: sh, PowerThreshold: new(big.Int).SetUint64(prev.par.PowerThreshold), ValidatorTimestamp: new(big.Int).SetUint64(prev.ts), LastCheckpoint: prev.par.Checkpoint}
	m.st.Count("c16.contract-step.evals")
	m.st.Bucket("c16|step|signers=%d/%d|unusable=%d|setchange=%v", minInt(countNonEmpty(rsigs), 6), len(rsigs), minInt(unusable, 2), len(prev.set.BridgeValidatorSet) != len(cur.set.BridgeValidatorSet))
	if err := model.UpdateValidatorSet(cur.par.ValsetHash, cur.par.PowerThreshold, new(big.Int).SetUint64(cur.ts), prevSet, rsigs); err != nil {
		c.Violate("C16", "c16", "contract-model-rejects-checkpoint-step:"+err.Error(), map[string]interface{}{"from": prev.idx, "to": cur.idx, "signed_power": signed, "sent_by_members_power": ownSigned, "total": total})
	}
	cur.steps = true
}

func countNonEmpty(s []ref.Sig) int {
	n := 0
	for _, x := range s {
		if x.V != 0 {
			n++
		}
	}
	return n
}

// ---------------------------------------------------------------------------------------------
// C17 (chain part): what PreBlocker writes is exactly the data of the accepted commit, in the sender's slot

type C17Monitor struct {
	BaseMonitor
	st    *Stats
	evm   map[string][]byte
	vsigs map[uint64][][]byte
	atts  map[string][][]byte
}

func NewC17Monitor(st *Stats) *C17Monitor { return &C17Monitor{st: st} }
func (m *C17Monitor) Name() string        { return "c17" }

func (m *C17Monitor) snap(c *Chain, ctx sdk.Context) (map[string][]byte, map[uint64][][]byte, map[string][][]byte) {
	evm := map[string][]byte{}
	_ = c.App.BridgeKeeper.OperatorToEVMAddressMap.Walk(ctx, nil, func(k string, v bridgetypes.EVMAddress) (bool, error) {
		evm[k] = v.EVMAddress
		return false, nil
	})
	vs := map[uint64][][]byte{}
	_ = c.App.BridgeKeeper.BridgeValsetSignaturesMap.Walk(ctx, nil, func(k uint64, v bridgetypes.BridgeValsetSignatures) (bool, error) {
		vs[k] = v.Signatures
		return false, nil
	})
	at := map[string][][]byte{}
	_ = c.App.BridgeKeeper.SnapshotToAttestationsMap.Walk(ctx, nil, func(k []byte, v bridgetypes.OracleAttestations) (bool, error) {
		at[string(k)] = v.Attestations
		return false, nil
	})
	return evm, vs, at
}

func (m *C17Monitor) BeforeBlock(c *Chain, ctx sdk.Context) { m.evm, m.vsigs, m.atts = m.snap(c, ctx) }

type sentExt struct {
	val *ValKeys
	ext app.BridgeVoteExtension
	ok  bool
}

// sent decodes what every committing validator of the last commit put into its vote extension.
func sentExtensions(c *Chain) []sentExt {
	var out []sentExt
	for _, v := range c.lastExt.Votes {
		if v.BlockIdFlag != cmtproto.BlockIDFlagCommit {
			continue
		}
		var keys *ValKeys
		for _, k := range c.W.Vals {
			if bytes.Equal(k.ConsAdr, v.Validator.Address) {
				keys = k
			}
		}
		if keys == nil {
			continue
		}
		s := sentExt{val: keys}
		if err := json.Unmarshal(v.VoteExtension, &s.ext); err == nil {
			s.ok = true
		}
		out = append(out, s)
	}
	return out
}

func (m *C17Monitor) BeginBlockEntry(c *Chain, ctx sdk.Context) {
	if ctx.BlockHeight() < 2 {
		return
	}
	evm, vs, at := m.snap(c, ctx)
	sent := sentExtensions(c)
	m.st.Count("c17.preblock-diff.evals")
	byOp := map[string]sentExt{}
	for _, s := range sent {
		byOp[s.val.ValAdr.String()] = s
	}
	// 1. EVM addresses: only new operators, from their own signatures
	for op, addr := range evm {
		old, had := m.evm[op]
		if had {
			if !bytes.Equal(old, addr) {
				c.Violate("C17", "c17", "registered-evm-address-changed", map[string]interface{}{"operator": op})
			}
			continue
		}
		s, ok := byOp[op]
		m.st.Bucket("c17|evm-registered|sender-in-commit=%v", ok)
		if !ok || !s.ok || len(s.ext.InitialSignature.SignatureA) == 0 {
			c.Violate("C17", "c17", "evm-address-registered-without-initial-signatures-of-that-validator", map[string]interface{}{"operator": op})
			continue
		}
		want, wok := ownEVMAddressFromSignatures(s.ext.InitialSignature.SignatureA, s.ext.InitialSignature.SignatureB)
		if !wok || !bytes.Equal(want.Bytes(), addr) {
			c.Violate("C17", "c17", "evm-address-not-the-one-recovered-from-its-own-signatures", map[string]interface{}{"operator": op})
		}
		if !bytes.Equal(addr, s.val.EVMAddress()) && isHonestInit(s) {
			c.Violate("C17", "c17", "evm-address-differs-from-validators-key", map[string]interface{}{"operator": op})
		}
	}
	// one EVM address, one operator
	owner := map[string]string{}
	dupAddr := map[string]bool{}
	for op, addr := range evm {
		if prev, ok := owner[string(addr)]; ok && prev != op {
			dupAddr[string(addr)] = true
			if _, had := m.evm[op]; !had {
				c.Violate("C17", "c17", "evm-address-registered-for-a-second-operator-by-replayed-signatures", map[string]interface{}{"operator": op, "other": prev})
			} else if _, had := m.evm[prev]; !had {
				c.Violate("C17", "c17", "evm-address-registered-for-a-second-operator-by-replayed-signatures", map[string]interface{}{"operator": prev, "other": op})
			}
		}
		owner[string(addr)] = op
	}
	for op := range m.evm {
		if _, ok := evm[op]; !ok {
			c.Violate("C17", "c17", "registered-evm-address-removed", map[string]interface{}{"operator": op})
		}
	}
	evmToSender := map[string]sentExt{}
	for _, s := range sent {
		if a, ok := evm[s.val.ValAdr.String()]; ok {
			evmToSender[string(a)] = s
		}
	}
	// 2. valset signatures: a changed slot j of checkpoint T holds what member j of the previous set sent for T
	for ts, slots := range vs {
		old := m.vsigs[ts]
		for j := range slots {
			if j < len(old) && bytes.Equal(old[j], slots[j]) {
				continue
			}
			if len(old) == 0 && len(slots[j]) == 0 {
				continue
			}
			m.st.Count("c17.valset-sig-slot.evals")
			prevSet, ok := m.previousSetOf(c, ctx, ts)
			if !ok || j >= len(prevSet.BridgeValidatorSet) {
				c.Violate("C17", "c17", "valset-signature-slot-without-previous-set-member", map[string]interface{}{"ts": ts, "slot": j})
				continue
			}
			if dupAddr[string(prevSet.BridgeValidatorSet[j].EthereumAddress)] {
				continue
			}
			s, ok := evmToSender[string(prevSet.BridgeValidatorSet[j].EthereumAddress)]
			m.st.Bucket("c17|valsetsig|sender-found=%v", ok)
			if !ok || !s.ok || s.ext.ValsetSignature.Timestamp != ts || !bytes.Equal(s.ext.ValsetSignature.Signature, slots[j]) {
				c.Violate("C17", "c17", "valset-signature-not-in-its-senders-slot", map[string]interface{}{"ts": ts, "slot": j, "sender_found": ok})
			}
		}
	}
	// 3. attestations: slot i of a snapshot belongs to member i of the set the snapshot's checkpoint commits to
	for snap, slots := range at {
		old := m.atts[snap]
		for i := range slots {
			if i < len(old) && bytes.Equal(old[i], slots[i]) {
				continue
			}
			if len(old) == 0 {
				continue // created in the previous block's EndBlock, seen first here with empty slots
			}
			m.st.Count("c17.attestation-slot.evals")
			set, same, ok := m.setOfSnapshot(c, ctx, []byte(snap))
			m.st.Bucket("c17|attestation|valset-changed-since-snapshot=%v", !same)
			if !ok || i >= len(set.BridgeValidatorSet) {
				c.Violate("C17", "c17", "attestation-slot-without-member-in-snapshots-set", map[string]interface{}{"slot": i, "set_changed_since_snapshot": !same})
				continue
			}
			if dupAddr[string(set.BridgeValidatorSet[i].EthereumAddress)] {
				m.st.Count("c17.attestation-slot.shared-evm-address-skipped")
				continue // reported as evm-address-registered-for-a-second-operator
			}
			s, found := evmToSender[string(set.BridgeValidatorSet[i].EthereumAddress)]
			okSent := false
			if found && s.ok {
				for _, a := range s.ext.OracleAttestations {
					if bytes.Equal(a.Snapshot, []byte(snap)) && bytes.Equal(a.Attestation, slots[i]) {
						okSent = true
					}
				}
			}
			if !okSent {
				c.Violate("C17", "c17", fmt.Sprintf("attestation-not-in-its-senders-slot:set-changed-since-snapshot=%v", !same), map[string]interface{}{"slot": i, "snapshot": hex.EncodeToString([]byte(snap))[:16]})
			}
		}
	}
	// 4. "exactly the accepted data": what an honest committing validator sent is written, whatever else the commit holds
	for _, sv := range c.lastExt.Votes {
		if sv.BlockIdFlag != cmtproto.BlockIDFlagCommit {
			continue
		}
		honest, ok := c.LastHonest[string(sv.Validator.Address)]
		if !ok || len(honest) == 0 || !bytes.Equal(honest, sv.VoteExtension) {
			continue
		}
		var s sentExt
		for _, x := range sent {
			if bytes.Equal(x.val.ConsAdr, sv.Validator.Address) {
				s = x
			}
		}
		if s.val == nil || !s.ok {
			continue
		}
		op := s.val.ValAdr.String()
		myEVM, registered := evm[op]
		if len(s.ext.InitialSignature.SignatureA) > 0 {
			m.st.Count("c17.completeness.evals")
			if !registered {
				c.Violate("C17", "c17", "accepted-initial-signatures-of-a-committing-validator-not-registered", map[string]interface{}{"operator": op})
			}
		}
		if !registered {
			continue
		}
		if sig := s.ext.ValsetSignature; len(sig.Signature) > 0 {
			if slots, ok := vs[sig.Timestamp]; ok {
				if prevSet, ok := m.previousSetOf(c, ctx, sig.Timestamp); ok {
					for j, bv := range prevSet.BridgeValidatorSet {
						if bytes.Equal(bv.EthereumAddress, myEVM) && j < len(slots) && !dupAddr[string(myEVM)] {
							m.st.Count("c17.completeness.evals")
							if !bytes.Equal(slots[j], sig.Signature) && len(m.vsigs[sig.Timestamp]) > j && len(m.vsigs[sig.Timestamp][j]) == 0 {
								c.Violate("C17", "c17", "accepted-checkpoint-signature-not-written-to-its-slot", map[string]interface{}{"operator": op, "ts": sig.Timestamp, "slot": j})
							}
						}
					}
				}
			}
		}
		for _, a := range s.ext.OracleAttestations {
			slots, ok := at[string(a.Snapshot)]
			if !ok {
				continue
			}
			set, same, ok := m.setOfSnapshot(c, ctx, a.Snapshot)
			if !ok || !same || dupAddr[string(myEVM)] {
				continue
			}
			for i, bv := range set.BridgeValidatorSet {
				if bytes.Equal(bv.EthereumAddress, myEVM) && i < len(slots) {
					m.st.Count("c17.completeness.evals")
					m.st.Bucket("c17|completeness|attestation-written=%v", bytes.Equal(slots[i], a.Attestation))
					if !bytes.Equal(slots[i], a.Attestation) {
						c.Violate("C17", "c17", "accepted-attestation-not-written-to-its-slot", map[string]interface{}{"operator": op, "slot": i, "snapshot": hex.EncodeToString(a.Snapshot)[:16]})
					}
				}
			}
		}
	}
	m.evm, m.vsigs, m.atts = evm, vs, at
}

func isHonestInit(s sentExt) bool {
	a := sha256sum([]byte("TellorLayer: Initial bridge signature A"))
	return bytes.Equal(s.ext.InitialSignature.SignatureA, s.val.BridgeSign(a))
}

func (m *C17Monitor) previousSetOf(c *Chain, ctx sdk.Context, ts uint64) (bridgetypes.BridgeValidatorSet, bool) {
	bk := c.App.BridgeKeeper
	idx, err := bk.ValsetTimestampToIdxMap.Get(ctx, ts)
	if err != nil || idx.Index == 0 {
		return bridgetypes.BridgeValidatorSet{}, false
	}
	pt, err := bk.ValidatorCheckpointIdxMap.Get(ctx, idx.Index-1)
	if err != nil {
		return bridgetypes.BridgeValidatorSet{}, false
	}
	set, err := bk.BridgeValsetByTimestampMap.Get(ctx, pt.Timestamp)
	return set, err == nil
}

// setOfSnapshot returns the validator set whose checkpoint the snapshot commits to and whether it still is the current set.
func (m *C17Monitor) setOfSnapshot(c *Chain, ctx sdk.Context, snap []byte) (bridgetypes.BridgeValidatorSet, bool, bool) {
	bk := c.App.BridgeKeeper
	data, err := bk.AttestSnapshotDataMap.Get(ctx, snap)
	if err != nil {
		return bridgetypes.BridgeValidatorSet{}, false, false
	}
	var found bridgetypes.BridgeValidatorSet
	ok := false
	_ = bk.ValidatorCheckpointParamsMap.Walk(ctx, nil, func(ts uint64, p bridgetypes.ValidatorCheckpointParams) (bool, error) {
		if bytes.Equal(p.Checkpoint, data.ValidatorCheckpoint) {
			if s, err := bk.BridgeValsetByTimestampMap.Get(ctx, ts); err == nil {
				found, ok = s, true
			}
			return true, nil
		}
		return false, nil
	})
	cur, err := bk.ValidatorCheckpoint.Get(ctx)
	same := err == nil && bytes.Equal(cur.Checkpoint, data.ValidatorCheckpoint)
	return found, same, ok
}
