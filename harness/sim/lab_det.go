package sim

import (
	"fmt"
	"sort"

	bridgetypes "github.com/tellor-io/layer/x/bridge/types"
	oracletypes "github.com/tellor-io/layer/x/oracle/types"

	"cosmossdk.io/math"

	sdk "github.com/cosmos/cosmos-sdk/types"
)

// C01 (repeat-call part): pure aggregation / distribution routines are called several times with identical inputs on
// fresh branches of the same state; return value, emitted events and the resulting store contents must be identical
// (Go re-rolls the start of every map iteration on each call).

func tipsDigest(l *LabCtx, ctx sdk.Context) string {
	tips, _ := selectorTips(l.C, ctx)
	keys := make([]string, 0, len(tips))
	for k := range tips {
		keys = append(keys, k)
	}
	sort.Strings(keys)
	s := ""
	for _, k := range keys {
		s += fmt.Sprintf("%x=%s;", k, tips[k])
	}
	return s
}

func c01LabOne(l *LabCtx) {
	r := l.R
	a := l.C.App
	base := l.Ctx
	switch r.Pick(3) {
	case 0: // AllocateRewards over generated aggregates
		refs := harvestRefs(l)
		if len(refs) == 0 {
			return
		}
		nAgg := 1 + r.Pick(3)
		var aggs []*oracletypes.Aggregate
		for i := 0; i < nAgg; i++ {
			x := refs[r.Pick(len(refs))]
			agg := &oracletypes.Aggregate{QueryId: x.QueryID}
			used := map[string]bool{}
			for j := 0; j < 1+r.Pick(5); j++ {
				y := refs[r.Pick(len(refs))]
				if string(y.QueryID) != string(x.QueryID) || used[y.Reporter.String()] {
					continue
				}
				used[y.Reporter.String()] = true
				p := y.Snap.Total.QuoRaw(1_000_000).Uint64()
				if p > 0 {
					agg.Reporters = append(agg.Reporters, &oracletypes.AggregateReporter{Reporter: y.Reporter.String(), Power: p, BlockNumber: y.Height})
				}
			}
			if len(agg.Reporters) > 0 {
				aggs = append(aggs, agg)
			}
		}
		if len(aggs) == 0 {
			return
		}
		R := math.NewInt([]int64{1, 7, 1000, 999_999, 123_456_789}[r.Pick(5)])
		first := ""
		nrep := 0
		for _, g := range aggs {
			nrep += len(g.Reporters)
		}
		for k := 0; k < 6; k++ {
			ctx, _ := base.CacheContext()
			ctx = ctx.WithEventManager(sdk.NewEventManager())
			_ = a.BankKeeper.MintCoins(ctx, oracletypes.ModuleName, sdk.NewCoins(sdk.NewCoin(Denom, R)))
			err := a.OracleKeeper.AllocateRewards(ctx, aggs, R, oracletypes.ModuleName)
			d := fmt.Sprintf("%v|%s|%d", err, tipsDigest(l, ctx), len(ctx.EventManager().Events()))
			l.St.Count("c01.repeat-calls")
			if k == 0 {
				first = d
			} else if d != first {
				l.Violate("C01", "repeatcall", "AllocateRewards:result-differs-between-identical-calls", map[string]interface{}{"reporters": nrep, "aggregates": len(aggs)})
				break
			}
		}
		l.St.Bucket("c01lab|AllocateRewards|reporters=%d|aggs=%d", minInt(nrep, 6), len(aggs))
	case 1: // PowerDiff over generated validator sets (sums over a map)
		mk := func(n int) bridgetypes.BridgeValidatorSet {
			var s bridgetypes.BridgeValidatorSet
			for i := 0; i < n; i++ {
				s.BridgeValidatorSet = append(s.BridgeValidatorSet, &bridgetypes.BridgeValidator{EthereumAddress: []byte{byte(r.Pick(12)), 1, 2}, Power: uint64(1 + r.Pick(1000))})
			}
			return s
		}
		x, y := mk(1+r.Pick(12)), mk(1+r.Pick(12))
		first := a.BridgeKeeper.PowerDiff(base, x, y)
		for k := 0; k < 10; k++ {
			l.St.Count("c01.repeat-calls")
			if a.BridgeKeeper.PowerDiff(base, x, y) != first {
				l.Violate("C01", "repeatcall", "PowerDiff:result-differs-between-identical-calls", nil)
				break
			}
		}
		l.St.Bucket("c01lab|PowerDiff|n=%d", minInt(len(x.BridgeValidatorSet), 6))
	default: // the bridge validator set derived from staking
		first := ""
		for k := 0; k < 6; k++ {
			ctx, _ := base.CacheContext()
			vs, err := a.BridgeKeeper.GetCurrentValidatorsEVMCompatible(ctx)
			d := fmt.Sprint(err)
			for _, v := range vs {
				d += fmt.Sprintf("%x:%d;", v.EthereumAddress, v.Power)
			}
			l.St.Count("c01.repeat-calls")
			if k == 0 {
				first = d
			} else if d != first {
				l.Violate("C01", "repeatcall", "GetCurrentValidatorsEVMCompatible:result-differs-between-identical-calls", nil)
				break
			}
		}
		l.St.Bucket("c01lab|EVMValidators")
	}
}

func init() {
	RegisterLab(&LabDef{
		ID:              "C01lab",
		PopulateProfile: &c09Populate,
		PopulateBlocks:  120,
		Inputs:          map[string]int{"quick": 1200, "thorough": 8000},
		Batches:         map[string]int{"quick": 4, "thorough": 16},
		One:             c01LabOne,
	})
}
