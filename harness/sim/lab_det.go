package sim

import (
	"crypto/sha256"
	"encoding/hex"
	"fmt"
	"sort"

	bridgetypes "github.com/tellor-io/layer/x/bridge/types"
	disputetypes "github.com/tellor-io/layer/x/dispute/types"
	oracletypes "github.com/tellor-io/layer/x/oracle/types"

	"cosmossdk.io/math"

	sdk "github.com/cosmos/cosmos-sdk/types"
	stakingtypes "github.com/cosmos/cosmos-sdk/x/staking/types"
)

// C01 (repeat-call part): pure aggregation / distribution routines are called several times with identical inputs on
// fresh branches of the same state; return value, emitted events and the resulting store contents must be identical
// (Go re-rolls the start of every map iteration on each call).

func tipsDigest(l *LabCtx, ctx sdk.Context) string {
	tips, _ := selectorTips(l.C, ctx)
	keys := make([]string, 0, len(tips))
	for k := range tips {
		keys = append(keys, k)
	}
	sort.Strings(keys)
	s := ""
	for _, k := range keys {
		s += fmt.Sprintf("%x=%s;", k, tips[k])
	}
	return s
}

// ctxDigest hashes the contents of the named module stores as seen through ctx (a branch of the lab state).
func ctxDigest(l *LabCtx, ctx sdk.Context, names ...string) string {
	h := sha256.New()
	for _, n := range names {
		key := l.C.App.GetKey(n)
		if key == nil {
			continue
		}
		it := ctx.KVStore(key).Iterator(nil, nil)
		for ; it.Valid(); it.Next() {
			k, v := it.Key(), it.Value()
			h.Write([]byte{byte(len(k) >> 8), byte(len(k))})
			h.Write(k)
			h.Write([]byte{byte(len(v) >> 16), byte(len(v) >> 8), byte(len(v))})
			h.Write(v)
		}
		it.Close()
	}
	return hex.EncodeToString(h.Sum(nil))[:20]
}

// repeatOnBranches runs f several times, each time on a fresh branch of the lab state, and compares error, emitted
// events (types and attributes, in order) and the contents of the module stores f may write.
func repeatOnBranches(l *LabCtx, site string, detail map[string]interface{}, f func(ctx sdk.Context) error) {
	first := ""
	for k := 0; k < 6; k++ {
		ctx, _ := l.Ctx.CacheContext()
		ctx = ctx.WithEventManager(sdk.NewEventManager())
		var err error
		func() {
			// a routine called on a state it does not fit may panic (e.g. a negative coin amount): that is an outcome
			// like any other as long as it is the same outcome every time
			defer func() {
				if rec := recover(); rec != nil {
					err = fmt.Errorf("panic: %v", rec)
				}
			}()
			err = f(ctx)
		}()
		ev := ""
		for _, e := range ctx.EventManager().Events() {
			ev += e.Type
			for _, a := range e.Attributes {
				ev += "|" + a.Key + "=" + a.Value
			}
			ev += ";"
		}
		evh := sha256.Sum256([]byte(ev))
		d := fmt.Sprintf("%v|%x|%s", err, evh[:8], ctxDigest(l, ctx, "reporter", "staking", "bank", "distribution", "dispute", "oracle"))
		l.St.Count("c01.repeat-calls")
		if k == 0 {
			first = d
		} else if d != first {
			l.Violate("C01", "repeatcall", site+":stores-or-events-differ-between-identical-calls", detail)
			return
		}
	}
}

func c01LabOne(l *LabCtx) {
	r := l.R
	a := l.C.App
	base := l.Ctx
	switch r.Pick(6) {
	case 3: // a dispute fee paid from a reporter's stake in two payments, then refunded
		refs := harvestRefs(l)
		if len(refs) == 0 {
			return
		}
		x := refs[r.Pick(len(refs))]
		total := x.Snap.Total
		if total.LT(math.NewInt(10)) {
			return
		}
		a1 := total.QuoRaw(int64(3 + r.Pick(20)))
		a2 := total.QuoRaw(int64(5 + r.Pick(40)))
		hash := []byte(fmt.Sprintf("c01lab-hash-%d", r.Pick(1000)))
		l.St.Bucket("c01lab|FeefromReporterStake-twice+FeeRefund|origins=%d", minInt(len(x.Snap.TokenOrigins), 4))
		repeatOnBranches(l, "FeefromReporterStake+FeeRefund", map[string]interface{}{"reporter": x.Reporter.String(), "origins": len(x.Snap.TokenOrigins)}, func(ctx sdk.Context) error {
			if err := a.ReporterKeeper.FeefromReporterStake(ctx, x.Reporter, a1, hash); err != nil {
				return err
			}
			if err := a.ReporterKeeper.FeefromReporterStake(ctx, x.Reporter, a2, hash); err != nil {
				return err
			}
			return a.ReporterKeeper.FeeRefund(ctx, hash, a1.Add(a2))
		})
		return
	case 4: // reporter stake escrowed for a dispute and returned
		refs := harvestRefs(l)
		if len(refs) == 0 {
			return
		}
		x := refs[r.Pick(len(refs))]
		power := x.Snap.Total.QuoRaw(1_000_000).Uint64()
		if power == 0 {
			return
		}
		amt := x.Snap.Total.MulRaw([]int64{1, 5, 100}[r.Pick(3)]).QuoRaw(100)
		hash := []byte(fmt.Sprintf("c01lab-esc-%d", r.Pick(1000)))
		l.St.Bucket("c01lab|EscrowReporterStake+ReturnSlashedTokens|origins=%d", minInt(len(x.Snap.TokenOrigins), 4))
		repeatOnBranches(l, "EscrowReporterStake+ReturnSlashedTokens", map[string]interface{}{"reporter": x.Reporter.String(), "origins": len(x.Snap.TokenOrigins)}, func(ctx sdk.Context) error {
			if err := a.ReporterKeeper.EscrowReporterStake(ctx, x.Reporter, power, x.Height, amt, x.QueryID, hash); err != nil {
				return err
			}
			// the dispute module sends the coins to the bonded pool before it asks for the stake to be returned
			if err := a.BankKeeper.SendCoinsFromModuleToModule(ctx, disputetypes.ModuleName, stakingtypes.BondedPoolName, sdk.NewCoins(sdk.NewCoin(Denom, amt))); err != nil {
				return err
			}
			return a.ReporterKeeper.ReturnSlashedTokens(ctx, amt, hash)
		})
		return
	case 5: // one reward divided among the selectors of a report
		refs := harvestRefs(l)
		if len(refs) == 0 {
			return
		}
		x := refs[r.Pick(len(refs))]
		R := math.LegacyNewDec([]int64{1, 7, 1000, 999_999, 123_456_789}[r.Pick(5)])
		l.St.Bucket("c01lab|DivvyingTips|origins=%d", minInt(len(x.Snap.TokenOrigins), 4))
		repeatOnBranches(l, "DivvyingTips", map[string]interface{}{"reporter": x.Reporter.String()}, func(ctx sdk.Context) error {
			return a.ReporterKeeper.DivvyingTips(ctx, x.Reporter, R, x.QueryID, x.Height)
		})
		return
	}
	switch r.Pick(3) {
	case 0: // AllocateRewards over generated aggregates
		refs := harvestRefs(l)
		if len(refs) == 0 {
			return
		}
		nAgg := 1 + r.Pick(3)
		var aggs []*oracletypes.Aggregate
		for i := 0; i < nAgg; i++ {
			x := refs[r.Pick(len(refs))]
			agg := &oracletypes.Aggregate{QueryId: x.QueryID}
			used := map[string]bool{}
			for j := 0; j < 1+r.Pick(5); j++ {
				y := refs[r.Pick(len(refs))]
				if string(y.QueryID) != string(x.QueryID) || used[y.Reporter.String()] {
					continue
				}
				used[y.Reporter.String()] = true
				p := y.Snap.Total.QuoRaw(1_000_000).Uint64()
				if p > 0 {
					agg.Reporters = append(agg.Reporters, &oracletypes.AggregateReporter{Reporter: y.Reporter.String(), Power: p, BlockNumber: y.Height})
				}
			}
			if len(agg.Reporters) > 0 {
				aggs = append(aggs, agg)
			}
		}
		if len(aggs) == 0 {
			return
		}
		R := math.NewInt([]int64{1, 7, 1000, 999_999, 123_456_789}[r.Pick(5)])
		first := ""
		nrep := 0
		for _, g := range aggs {
			nrep += len(g.Reporters)
		}
		for k := 0; k < 6; k++ {
			ctx, _ := base.CacheContext()
			ctx = ctx.WithEventManager(sdk.NewEventManager())
			_ = a.BankKeeper.MintCoins(ctx, oracletypes.ModuleName, sdk.NewCoins(sdk.NewCoin(Denom, R)))
			err := a.OracleKeeper.AllocateRewards(ctx, aggs, R, oracletypes.ModuleName)
			d := fmt.Sprintf("%v|%s|%d", err, tipsDigest(l, ctx), len(ctx.EventManager().Events()))
			l.St.Count("c01.repeat-calls")
			if k == 0 {
				first = d
			} else if d != first {
				l.Violate("C01", "repeatcall", "AllocateRewards:result-differs-between-identical-calls", map[string]interface{}{"reporters": nrep, "aggregates": len(aggs)})
				break
			}
		}
		l.St.Bucket("c01lab|AllocateRewards|reporters=%d|aggs=%d", minInt(nrep, 6), len(aggs))
	case 1: // PowerDiff over generated validator sets (sums over a map)
		mk := func(n int) bridgetypes.BridgeValidatorSet {
			var s bridgetypes.BridgeValidatorSet
			for i := 0; i < n; i++ {
				s.BridgeValidatorSet = append(s.BridgeValidatorSet, &bridgetypes.BridgeValidator{EthereumAddress: []byte{byte(r.Pick(12)), 1, 2}, Power: uint64(1 + r.Pick(1000))})
			}
			return s
		}
		x, y := mk(1+r.Pick(12)), mk(1+r.Pick(12))
		first := a.BridgeKeeper.PowerDiff(base, x, y)
		for k := 0; k < 10; k++ {
			l.St.Count("c01.repeat-calls")
			if a.BridgeKeeper.PowerDiff(base, x, y) != first {
				l.Violate("C01", "repeatcall", "PowerDiff:result-differs-between-identical-calls", nil)
				break
			}
		}
		l.St.Bucket("c01lab|PowerDiff|n=%d", minInt(len(x.BridgeValidatorSet), 6))
	default: // the bridge validator set derived from staking
		first := ""
		for k := 0; k < 6; k++ {
			ctx, _ := base.CacheContext()
			vs, err := a.BridgeKeeper.GetCurrentValidatorsEVMCompatible(ctx)
			d := fmt.Sprint(err)
			for _, v := range vs {
				d += fmt.Sprintf("%x:%d;", v.EthereumAddress, v.Power)
			}
			l.St.Count("c01.repeat-calls")
			if k == 0 {
				first = d
			} else if d != first {
				l.Violate("C01", "repeatcall", "GetCurrentValidatorsEVMCompatible:result-differs-between-identical-calls", nil)
				break
			}
		}
		l.St.Bucket("c01lab|EVMValidators")
	}
}

func init() {
	RegisterLab(&LabDef{
		ID:              "C01lab",
		PopulateProfile: &c09Populate,
		PopulateBlocks:  120,
		Inputs:          map[string]int{"quick": 1200, "thorough": 8000},
		Batches:         map[string]int{"quick": 4, "thorough": 16},
		One:             c01LabOne,
	})
}
