package sim

import (
	"sort"
	"time"

	disputetypes "github.com/tellor-io/layer/x/dispute/types"

	"cosmossdk.io/collections"

	sdk "github.com/cosmos/cosmos-sdk/types"
	banktypes "github.com/cosmos/cosmos-sdk/x/bank/types"
)

// settlementPhase ends a history for the dispute properties: time is advanced until every dispute has run its
// course, then the driver itself makes every fee payer and every voter claim (and claim again, which must
// fail), and finally lets the monitor look at what is left in escrow.
func settlementPhase(c *Chain, g *Gen, dm *DisputeMonitor) {
	quiet := func(gap time.Duration, txs [][]byte) bool {
		br := c.NextBlock(BlockPlan{Gap: gap, Txs: txs})
		return br.Err == nil
	}
	// small steps so that disputes reach the end of their periods in different blocks (their flows stay attributable)
	for i := 0; i < 420; i++ {
		if !quiet(20*time.Minute, nil) {
			return
		}
	}
	// the accounts that voted with their last unit cannot pay the fee of a claim: give them the means (a claim that
	// never reaches a block because its signer cannot pay for it is not the chain withholding a reward)
	var fund [][]byte
	for i, pa := range c.W.Poor {
		from := c.W.Users[i%len(c.W.Users)]
		if tx := g.tb.Tx(from, &banktypes.MsgSend{FromAddress: from.Bech(), ToAddress: pa.Bech(), Amount: sdk.NewCoins(sdk.NewInt64Coin(Denom, 100*DefaultFee))}); tx != nil {
			fund = append(fund, tx)
		}
	}
	if !quiet(6*time.Second, fund) {
		return
	}
	for pass := 0; pass < 2; pass++ {
		ctx := c.CommittedCtx()
		type claim struct {
			signer *Account
			msg    sdk.Msg
		}
		var claims []claim
		var ds []disputetypes.Dispute
		_ = c.App.DisputeKeeper.Disputes.Walk(ctx, nil, func(id uint64, d disputetypes.Dispute) (bool, error) {
			ds = append(ds, d)
			return false, nil
		})
		sort.Slice(ds, func(i, j int) bool { return ds[i].DisputeId < ds[j].DisputeId })
		anySigner := func(i int) *Account { return c.W.Users[i%len(c.W.Users)] }
		n := 0
		for _, d := range ds {
			v, err := c.App.DisputeKeeper.Votes.Get(ctx, d.DisputeId)
			executed := err == nil && v.Executed
			if !executed && d.DisputeStatus != disputetypes.Failed {
				continue
			}
			// payers (records are kept under the id of the round they paid in)
			for _, pid := range d.PrevDisputeIds {
				_ = c.App.DisputeKeeper.DisputeFeePayer.Walk(ctx, collections.NewPrefixedPairRange[uint64, []byte](pid), func(k collections.Pair[uint64, []byte], _ disputetypes.PayerInfo) (bool, error) {
					n++
					claims = append(claims, claim{anySigner(n), &disputetypes.MsgWithdrawFeeRefund{CallerAddress: anySigner(n).Bech(), PayerAddress: sdk.AccAddress(k.K2()).String(), Id: pid}})
					if pid != d.DisputeId {
						n++
						claims = append(claims, claim{anySigner(n), &disputetypes.MsgWithdrawFeeRefund{CallerAddress: anySigner(n).Bech(), PayerAddress: sdk.AccAddress(k.K2()).String(), Id: d.DisputeId}})
					}
					return false, nil
				})
				if !executed {
					continue
				}
				_ = c.App.DisputeKeeper.Voter.Walk(ctx, collections.NewPrefixedPairRange[uint64, []byte](pid), func(k collections.Pair[uint64, []byte], _ disputetypes.Voter) (bool, error) {
					if acc := c.W.ByAddr[sdk.AccAddress(k.K2()).String()]; acc != nil {
						claims = append(claims, claim{acc, &disputetypes.MsgClaimReward{CallerAddress: acc.Bech(), DisputeId: d.DisputeId}})
					}
					return false, nil
				})
			}
		}
		for len(claims) > 0 {
			var txs [][]byte
			var rest []claim
			for _, cl := range claims {
				if g.tb.Used(cl.signer) || len(txs) >= 12 {
					rest = append(rest, cl)
					continue
				}
				if tx := g.tb.Tx(cl.signer, cl.msg); tx != nil {
					txs = append(txs, tx)
				}
			}
			claims = rest
			if !quiet(6*time.Second, txs) {
				return
			}
		}
	}
	quiet(6*time.Second, nil)
	if !c.Dead {
		dm.Settle(c, c.CommittedCtx())
	}
}
