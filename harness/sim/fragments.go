package sim

import (
	slashingtypes "github.com/cosmos/cosmos-sdk/x/slashing/types"
	stakingtypes "github.com/cosmos/cosmos-sdk/x/staking/types"
	reportertypes "github.com/tellor-io/layer/x/reporter/types"
	"math/big"
	"time"

	bridgetypes "github.com/tellor-io/layer/x/bridge/types"
	minttypes "github.com/tellor-io/layer/x/mint/types"
	oracletypes "github.com/tellor-io/layer/x/oracle/types"
	registrytypes "github.com/tellor-io/layer/x/registry/types"

	sdk "github.com/cosmos/cosmos-sdk/types"
	authtypes "github.com/cosmos/cosmos-sdk/x/auth/types"
	govtypes "github.com/cosmos/cosmos-sdk/x/gov/types"
	govv1 "github.com/cosmos/cosmos-sdk/x/gov/types/v1"
)

// Directed fragments: short op recipes the generator splices into a history (one step per block).

func govAddr() string { return authtypes.NewModuleAddress(govtypes.ModuleName).String() }

// govSteps returns the steps that pass a governance proposal carrying msgs: submit, then all genesis
// validators vote yes (the random part of the generator keeps running next to it).
func (g *Gen) govSteps(msgs ...sdk.Msg) []func() [][]byte {
	var pid uint64
	submit := func() [][]byte {
		s := g.free(g.user)
		if s == nil {
			return nil
		}
		// the id the proposal will get
		id, err := g.c.App.GovKeeper.ProposalID.Peek(g.c.CommittedCtx())
		if err == nil {
			pid = id
		}
		pm, err := govv1.NewMsgSubmitProposal(msgs, sdk.Coins{rawCoin(10_000_000)}, s.Bech(), "", "t", "s", false)
		if err != nil {
			return nil
		}
		return [][]byte{g.tx(s, pm)}
	}
	vote := func() [][]byte {
		var out [][]byte
		for _, k := range g.c.W.Vals[:g.c.W.Cfg.NumVals] {
			if !g.tb.Used(k.Op) {
				out = append(out, g.tx(k.Op, govv1.NewMsgVote(k.Op.Addr, pid, govv1.OptionYes, "")))
			}
		}
		return out
	}
	return []func() [][]byte{submit, vote}
}

// depositSteps: the genesis validators (who are reporters by then) report deposit `id`, a minority may report a
// different value, the 2000-block window is fast-forwarded, and claims are tried just before and after 12 h.
func (g *Gen) depositSteps(id uint64, amountTRB, tipTRB int64, wait int) []func() [][]byte {
	return g.depositStepsRaw(id, amountTRB, tipTRB, wait, "")
}

// depositStepsRaw: like depositSteps; a non-empty raw is the exact value every validator reports (hostile encodings)
func (g *Gen) depositStepsRaw(id uint64, amountTRB, tipTRB int64, wait int, raw string) []func() [][]byte {
	rcpt := g.c.W.Users[int(id)%len(g.c.W.Users)]
	selfClaim := g.r.Chance(0.5)
	mk := func(a, t int64) string {
		if raw != "" {
			return raw
		}
		return DepositValue([]byte{byte(id), 9, 9}, rcpt.Bech(), new(big.Int).Mul(big.NewInt(a), big.NewInt(1e18)), new(big.Int).Mul(big.NewInt(t), big.NewInt(1e18)))
	}
	good := mk(amountTRB, tipTRB)
	report := func() [][]byte {
		var out [][]byte
		for i, k := range g.c.W.Vals[:g.c.W.Cfg.NumVals] {
			if g.tb.Used(k.Op) {
				continue
			}
			v := good
			if i == g.c.W.Cfg.NumVals-1 && id%2 == 0 {
				v = mk(amountTRB+1, tipTRB) // the weakest validator disagrees
			}
			out = append(out, g.tx(k.Op, &oracletypes.MsgSubmitValue{Creator: k.Op.Bech(), QueryData: BridgeQuery(true, id), Value: v}))
		}
		g.FastForward = 2001
		return out
	}
	claim := func(gap time.Duration) func() [][]byte {
		return func() [][]byte {
			g.ForceGap = gap
			s := g.free(g.user)
			if selfClaim && !g.tb.Used(rcpt) {
				s = rcpt // the recipient claims its own deposit (it is then also the one the tip part goes to)
			}
			if s == nil {
				return nil
			}
			return [][]byte{g.tx(s, &bridgetypes.MsgClaimDepositsRequest{Creator: s.Bech(), DepositIds: []uint64{id}, Indices: []uint64{0}})}
		}
	}
	steps := []func() [][]byte{}
	for i := 0; i < wait; i++ {
		steps = append(steps, func() [][]byte { return nil })
	}
	return append(steps, report, claim(12*time.Hour-2*time.Second), claim(time.Second), claim(3*time.Second), claim(6*time.Second))
}

func init() {
	// registers weighted-mode specs early so that mode-aggregated rounds with few distinct values exist
	fragments["modeSpec"] = func(g *Gen) []func() [][]byte {
		reg := func(name string, window uint64) func() [][]byte {
			return func() [][]byte {
				s := g.free(g.user)
				if s == nil {
					return nil
				}
				qd := QueryData(name, abiPack([]string{"uint256"}, big.NewInt(1)))
				g.customQ = append(g.customQ, qd)
				return [][]byte{g.tx(s, &registrytypes.MsgRegisterSpec{Registrar: s.Bech(), QueryType: name, Spec: registrytypes.DataSpec{ResponseValueType: "uint256", AggregationMethod: "weighted-mode",
					AbiComponents: []*registrytypes.ABIComponent{{Name: "x", FieldType: "uint256"}}, ReportBlockWindow: window}})}
			}
		}
		return []func() [][]byte{func() [][]byte { return nil }, reg("ModeA", 3), reg("ModeB", 5)}
	}
	// modeRounds: after modeSpec registered ModeA (window 3) and ModeB (window 5), several rounds in which the three
	// strongest validators report so that the maximal-power value differs from the weighted median, each tipped in the same
	// block as a spot-price (median) query so that rounds of both methods close together
	fragments["modeRounds"] = func(g *Gen) []func() [][]byte {
		wait := func() [][]byte { return nil }
		round := func(name string, k int) []func() [][]byte {
			qd := QueryData(name, abiPack([]string{"uint256"}, big.NewInt(1)))
			spot := g.spots[k%len(g.spots)]
			tip := func() [][]byte {
				var out [][]byte
				for _, q := range [][]byte{qd, spot} {
					if s := g.free(g.user); s != nil {
						out = append(out, g.tx(s, &oracletypes.MsgTip{Tipper: s.Bech(), QueryData: q, Amount: rawCoin(1_000_000)}))
					}
				}
				return out
			}
			report := func() [][]byte {
				// validators ordered by genesis stake: the strongest reports HIGH, the next LOW, the third MID
				vals := []string{Uint256Value(big.NewInt(9000 + int64(k))), Uint256Value(big.NewInt(10 + int64(k))), Uint256Value(big.NewInt(500 + int64(k)))}
				var out [][]byte
				for i := 0; i < 3 && i < g.c.W.Cfg.NumVals; i++ {
					op := g.c.W.Vals[i].Op
					if g.tb.Used(op) {
						continue
					}
					out = append(out, g.tx(op, &oracletypes.MsgSubmitValue{Creator: op.Bech(), QueryData: qd, Value: vals[i]}))
				}
				// and a spot-price report so that a median round closes nearby
				if g.c.W.Cfg.NumVals > 3 && !g.tb.Used(g.c.W.Vals[3].Op) {
					op := g.c.W.Vals[3].Op
					out = append(out, g.tx(op, &oracletypes.MsgSubmitValue{Creator: op.Bech(), QueryData: spot, Value: Uint256Value(big.NewInt(2000 + int64(k)))}))
				}
				return out
			}
			return []func() [][]byte{tip, report, wait}
		}
		steps := []func() [][]byte{wait, wait, wait, wait, wait, wait}
		for k := 0; k < 8; k++ {
			steps = append(steps, round([]string{"ModeA", "ModeB"}[k%2], k)...)
		}
		return steps
	}
	fragments["deposit1"] = func(g *Gen) []func() [][]byte { return g.depositSteps(1, 100, 0, 8) }
	fragments["deposit2"] = func(g *Gen) []func() [][]byte { return g.depositSteps(2, 250, 3, 1) }
	fragments["deposit3"] = func(g *Gen) []func() [][]byte { return g.depositSteps(3, 7, 7, 1) }
	// depositExpiry: an untipped deposit round gets one report, the chain is fast-forwarded to the block in which the
	// round's window ends, and further reports arrive exactly at, and one block after, that height
	fragments["depositExpiry"] = func(g *Gen) []func() [][]byte {
		const id = 4
		qd := BridgeQuery(true, id)
		val := DepositValue([]byte{id, 7, 7}, g.c.W.Users[0].Bech(), new(big.Int).Mul(big.NewInt(3), big.NewInt(1e18)), big.NewInt(0))
		rep := func(idx ...int) func() [][]byte {
			return func() [][]byte {
				var out [][]byte
				for _, i := range idx {
					if i < g.c.W.Cfg.NumVals && !g.tb.Used(g.c.W.Vals[i].Op) {
						k := g.c.W.Vals[i].Op
						out = append(out, g.tx(k, &oracletypes.MsgSubmitValue{Creator: k.Bech(), QueryData: qd, Value: val}))
					}
				}
				return out
			}
		}
		wait := func() [][]byte { return nil }
		jump := func() [][]byte {
			// the block being planned is Height+1; the next planned block shall be the round's expiration height
			if q, err := g.c.App.OracleKeeper.CurrentQuery(g.c.CommittedCtx(), QueryID(qd)); err == nil {
				if n := int(q.Expiration) - int(g.c.Height) - 2; n > 0 && n < 3000 {
					g.FastForward = n
				}
			}
			return nil
		}
		return []func() [][]byte{wait, wait, wait, wait, wait, wait, rep(0), jump, rep(1, 2), rep(3, 0), wait}
	}
	// hostile deposit reports (what the quantifier of C14 lists): every validator reports the same odd value, so it
	// becomes the aggregate; the claim must then be refused or pay exactly what the value says
	e18 := func(n int64) *big.Int { return new(big.Int).Mul(big.NewInt(n), big.NewInt(1e18)) }
	hostileDeposit := func(id uint64, mk func(g *Gen) string) func(g *Gen) []func() [][]byte {
		return func(g *Gen) []func() [][]byte { return g.depositStepsRaw(id, 0, 0, 1, mk(g)) }
	}
	fragments["depositTipAboveAmount"] = hostileDeposit(5, func(g *Gen) string { return DepositValue([]byte{5, 1}, g.c.W.Users[1].Bech(), e18(3), e18(8)) })
	fragments["depositTipEqualsAmount"] = hostileDeposit(6, func(g *Gen) string { return DepositValue([]byte{6, 1}, g.c.W.Users[2].Bech(), e18(4), e18(4)) })
	fragments["depositBadRecipient"] = hostileDeposit(7, func(g *Gen) string { return DepositValue([]byte{7, 1}, "not-a-bech32-address", e18(5), e18(1)) })
	fragments["depositForeignPrefix"] = hostileDeposit(8, func(g *Gen) string {
		return DepositValue([]byte{8, 1}, "cosmos1qypqxpq9qcrsszg2pvxq6rs0zqg3yyc5lzv7xu", e18(5), big.NewInt(0))
	})
	fragments["depositSubUnit"] = hostileDeposit(9, func(g *Gen) string {
		// amount and tip with parts below 1e12 (dropped by the unit conversion) and a tip of less than one unit
		return DepositValue([]byte{9, 1}, g.c.W.Users[3].Bech(), new(big.Int).Add(e18(2), big.NewInt(999_999_999_999)), big.NewInt(999_999_999_999))
	})
	fragments["depositHuge"] = hostileDeposit(10, func(g *Gen) string {
		return DepositValue([]byte{10, 1}, g.c.W.Users[4].Bech(), new(big.Int).Lsh(big.NewInt(1), 200), big.NewInt(0))
	})
	fragments["depositTruncated"] = hostileDeposit(11, func(g *Gen) string {
		v := DepositValue([]byte{11, 1}, g.c.W.Users[5].Bech(), e18(6), big.NewInt(0))
		return v[:len(v)-70]
	})
	fragments["depositModuleRecipient"] = hostileDeposit(13, func(g *Gen) string {
		// a well-formed address the bank refuses to credit (a module account): the claim cannot pay the recipient
		return DepositValue([]byte{13, 1}, authtypes.NewModuleAddress([]string{"fee_collector", "bonded_tokens_pool", "bridge", "distribution"}[g.r.Pick(4)]).String(), e18(5), e18(1))
	})
	fragments["depositWrap64"] = hostileDeposit(14, func(g *Gen) string {
		// amount / 10^12 = 2^64 + 5: does not fit 64 bits (nothing but that amount, or nothing at all, may be minted)
		amt := new(big.Int).Add(new(big.Int).Lsh(big.NewInt(1), 64), big.NewInt(5))
		return DepositValue([]byte{14, 1}, g.c.W.Users[2].Bech(), amt.Mul(amt, big.NewInt(1_000_000_000_000)), big.NewInt(0))
	})
	fragments["depositZero"] = hostileDeposit(12, func(g *Gen) string {
		return DepositValue([]byte{12, 1}, g.c.W.Users[6].Bech(), big.NewInt(0), big.NewInt(0))
	})
	// depositPair: two untipped deposit rounds opened in the same block (so they close in the same block 2000 blocks
	// later); one reporter is in both, with reports from different heights
	fragments["depositPair"] = func(g *Gen) []func() [][]byte {
		val := func(id byte) string {
			return DepositValue([]byte{id, 5, 5}, g.c.W.Users[int(id)%len(g.c.W.Users)].Bech(), new(big.Int).Mul(big.NewInt(int64(id)), big.NewInt(1e18)), big.NewInt(0))
		}
		sub := func(vi int, ids ...uint64) [][]byte {
			var out [][]byte
			if vi >= g.c.W.Cfg.NumVals || g.tb.Used(g.c.W.Vals[vi].Op) {
				return nil
			}
			k := g.c.W.Vals[vi].Op
			var msgs []sdk.Msg
			for _, id := range ids {
				msgs = append(msgs, &oracletypes.MsgSubmitValue{Creator: k.Bech(), QueryData: BridgeQuery(true, id), Value: val(byte(id))})
			}
			out = append(out, g.tx(k, msgs...))
			return out
		}
		wait := func() [][]byte { return nil }
		first := func() [][]byte { return append(sub(1, 13, 14), sub(0, 13)...) }
		second := func() [][]byte {
			g.FastForward = 2001
			return append(sub(0, 14), sub(2, 13, 14)...)
		}
		return []func() [][]byte{wait, wait, wait, wait, wait, wait, wait, first, second, wait}
	}
	// depositExpiryTipped: like depositExpiry for a TIPPED deposit round that already holds a report
	fragments["depositExpiryTipped"] = func(g *Gen) []func() [][]byte {
		const id = 15
		qd := BridgeQuery(true, id)
		val := DepositValue([]byte{id, 7, 7}, g.c.W.Users[0].Bech(), new(big.Int).Mul(big.NewInt(2), big.NewInt(1e18)), big.NewInt(0))
		rep := func(idx ...int) func() [][]byte {
			return func() [][]byte {
				var out [][]byte
				for _, i := range idx {
					if i < g.c.W.Cfg.NumVals && !g.tb.Used(g.c.W.Vals[i].Op) {
						k := g.c.W.Vals[i].Op
						out = append(out, g.tx(k, &oracletypes.MsgSubmitValue{Creator: k.Bech(), QueryData: qd, Value: val}))
					}
				}
				return out
			}
		}
		tip := func() [][]byte {
			if s := g.free(g.user); s != nil {
				return [][]byte{g.tx(s, &oracletypes.MsgTip{Tipper: s.Bech(), QueryData: qd, Amount: rawCoin(3_000_000)})}
			}
			return nil
		}
		wait := func() [][]byte { return nil }
		jump := func() [][]byte {
			if q, err := g.c.App.OracleKeeper.CurrentQuery(g.c.CommittedCtx(), QueryID(qd)); err == nil {
				if n := int(q.Expiration) - int(g.c.Height) - 2; n > 0 && n < 3000 {
					g.FastForward = n
				}
			}
			return nil
		}
		return []func() [][]byte{wait, wait, wait, wait, wait, wait, tip, rep(0), jump, rep(1, 2), rep(3, 0), wait}
	}
	// offParOrigins: three users with odd-sized delegations to the smallest validator select the strongest reporter; the
	// validator then misses blocks (downtime slash 1 %, jail), is unjailed and bonded again with shares worth slightly
	// less than one token each, and the reporter keeps reporting: its stake snapshots now hold several fractional
	// origins on one validator
	fragments["offParOrigins"] = func(g *Gen) []func() [][]byte {
		wait := func() [][]byte { return nil }
		n := g.c.W.Cfg.NumVals
		if n < 3 || len(g.c.W.Users) < 6 {
			return nil
		}
		small, rep := g.c.W.Vals[n-1], g.c.W.Vals[0].Op
		users := g.c.W.Users[len(g.c.W.Users)-3:]
		amts := []int64{1_234_567, 7_654_321, 3_333_331}
		delegate := func() [][]byte {
			var out [][]byte
			for i, u := range users {
				if !g.tb.Used(u) {
					out = append(out, g.tx(u, &stakingtypes.MsgDelegate{DelegatorAddress: u.Bech(), ValidatorAddress: small.ValAdr.String(), Amount: sdk.NewInt64Coin(Denom, amts[i])}))
				}
			}
			return out
		}
		sel := func() [][]byte {
			var out [][]byte
			for _, u := range users {
				if !g.tb.Used(u) {
					out = append(out, g.tx(u, &reportertypes.MsgSelectReporter{SelectorAddress: u.Bech(), ReporterAddress: rep.Bech()}))
				}
			}
			return out
		}
		down := func() [][]byte {
			g.downVal, g.downUntil, g.downDone = string(small.ConsAdr), g.c.Height+10, true
			return nil
		}
		unjail := func() [][]byte {
			g.ForceGap = 70 * time.Second
			if g.tb.Used(small.Op) {
				return nil
			}
			return [][]byte{g.tx(small.Op, slashingtypes.NewMsgUnjail(small.ValAdr.String()))}
		}
		report := func() [][]byte {
			if g.tb.Used(rep) {
				return nil
			}
			cq, err := g.c.App.OracleKeeper.GetCurrentQueryInCycleList(g.c.CommittedCtx())
			if err != nil {
				return nil
			}
			return [][]byte{g.tx(rep, &oracletypes.MsgSubmitValue{Creator: rep.Bech(), QueryData: cq, Value: Uint256Value(big.NewInt(4242))})}
		}
		steps := []func() [][]byte{wait, wait, wait, wait, wait, wait, delegate, sel, down}
		for i := 0; i < 13; i++ {
			steps = append(steps, wait)
		}
		steps = append(steps, unjail, unjail, wait, wait)
		for i := 0; i < 10; i++ {
			steps = append(steps, report)
		}
		return steps
	}
	fragments["mintInit"] = func(g *Gen) []func() [][]byte {
		// give the chain a few blocks first
		wait := func() [][]byte { return nil }
		steps := []func() [][]byte{wait, wait, wait}
		return append(steps, g.govSteps(&minttypes.MsgInit{Authority: govAddr()})...)
	}
}
