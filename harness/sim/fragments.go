package sim

import (
	minttypes "github.com/tellor-io/layer/x/mint/types"

	sdk "github.com/cosmos/cosmos-sdk/types"
	authtypes "github.com/cosmos/cosmos-sdk/x/auth/types"
	govtypes "github.com/cosmos/cosmos-sdk/x/gov/types"
	govv1 "github.com/cosmos/cosmos-sdk/x/gov/types/v1"
)

// Directed fragments: short op recipes the generator splices into a history (one step per block).

func govAddr() string { return authtypes.NewModuleAddress(govtypes.ModuleName).String() }

// govSteps returns the steps that pass a governance proposal carrying msgs: submit, then all genesis
// validators vote yes (the random part of the generator keeps running next to it).
func (g *Gen) govSteps(msgs ...sdk.Msg) []func() [][]byte {
	var pid uint64
	submit := func() [][]byte {
		s := g.free(g.user)
		if s == nil {
			return nil
		}
		// the id the proposal will get
		id, err := g.c.App.GovKeeper.ProposalID.Peek(g.c.CommittedCtx())
		if err == nil {
			pid = id
		}
		pm, err := govv1.NewMsgSubmitProposal(msgs, sdk.Coins{rawCoin(10_000_000)}, s.Bech(), "", "t", "s", false)
		if err != nil {
			return nil
		}
		return [][]byte{g.tx(s, pm)}
	}
	vote := func() [][]byte {
		var out [][]byte
		for _, k := range g.c.W.Vals[:g.c.W.Cfg.NumVals] {
			if !g.tb.Used(k.Op) {
				out = append(out, g.tx(k.Op, govv1.NewMsgVote(k.Op.Addr, pid, govv1.OptionYes, "")))
			}
		}
		return out
	}
	return []func() [][]byte{submit, vote}
}

func init() {
	fragments["mintInit"] = func(g *Gen) []func() [][]byte {
		// give the chain a few blocks first
		wait := func() [][]byte { return nil }
		steps := []func() [][]byte{wait, wait, wait}
		return append(steps, g.govSteps(&minttypes.MsgInit{Authority: govAddr()})...)
	}
}
