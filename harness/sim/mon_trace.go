package sim

import (
	"fmt"
	"os"

	disputetypes "github.com/tellor-io/layer/x/dispute/types"

	sdk "github.com/cosmos/cosmos-sdk/types"
)

// Tracer prints what happens around a height (debugging aid for triage, never part of a check).
type Tracer struct {
	BaseMonitor
	From, To int64
	Extra    func(c *Chain, ctx sdk.Context) string
}

func (t *Tracer) Name() string { return "tracer" }
func (t *Tracer) on(c *Chain) bool {
	h := c.Height + 1
	return h >= t.From && h <= t.To
}
func (t *Tracer) snap(c *Chain, ctx sdk.Context, where string) {
	s := TakeStakeSnap(c, ctx, false)
	extra := ""
	if t.Extra != nil {
		extra = t.Extra(c, ctx)
	}
	fmt.Fprintf(os.Stderr, "TRACE h=%d %-22s poolB=%s ledgB=%s poolNB=%s ledgNB=%s ubd=%s dispute=%s supply=%s %s\n", c.Height+1, where, s.PoolBonded, s.LedgerBonded, s.PoolNotBonded, s.LedgerNotBond, s.UBD, s.Dispute,
		c.App.BankKeeper.GetSupply(ctx, Denom).Amount, extra)
}
func (t *Tracer) BeforeBlock(c *Chain, ctx sdk.Context) {
	if t.on(c) {
		_ = c.App.DisputeKeeper.Disputes.Walk(ctx, nil, func(id uint64, d disputetypes.Dispute) (bool, error) {
			ex := "-"
			if v, err := c.App.DisputeKeeper.Votes.Get(ctx, id); err == nil {
				ex = fmt.Sprintf("res=%s exec=%v", v.VoteResult, v.Executed)
			}
			has, _ := c.App.ReporterKeeper.DisputedDelegationAmounts.Has(ctx, d.HashId)
			fmt.Fprintf(os.Stderr, "TRACE   dispute %d round=%d status=%s open=%v pend=%v cat=%s slash=%s fee=%s burn=%s escrowrec=%v %s hash=%x\n", id, d.DisputeRound, d.DisputeStatus, d.Open, d.PendingExecution, d.DisputeCategory, d.SlashAmount, d.FeeTotal, d.BurnAmount, has, ex, d.HashId[:4])
			return false, nil
		})
		fmt.Fprintf(os.Stderr, "TRACE ---- block %d time %s\n", c.Height+1, c.Time)
		vals, _ := c.App.StakingKeeper.GetAllValidators(ctx)
		for _, v := range vals {
			fmt.Fprintf(os.Stderr, "TRACE   val %s status=%s jailed=%v tokens=%s shares=%s\n", v.OperatorAddress[len(v.OperatorAddress)-6:], v.Status, v.Jailed, v.Tokens, v.DelegatorShares)
		}
		t.snap(c, ctx, "S0")
	}
}
func (t *Tracer) BeginBlockEntry(c *Chain, ctx sdk.Context) {
	if t.on(c) {
		t.snap(c, ctx, "S1 begin-entry")
	}
}
func (t *Tracer) BeginBlockExit(c *Chain, ctx sdk.Context, err error) {
	if t.on(c) {
		t.snap(c, ctx, fmt.Sprintf("S2 begin-exit err=%v", err))
	}
}
func (t *Tracer) AfterTx(c *Chain, ctx sdk.Context, tx sdk.Tx, ok bool) {
	if t.on(c) {
		fmt.Fprintf(os.Stderr, "TRACE   tx#%d ok=%v %s\n", c.TxIndex(), ok, describe(tx.GetMsgs()))
		if ok {
			t.snap(c, ctx, "T")
		}
	}
}
func (t *Tracer) EndBlockEntry(c *Chain, ctx sdk.Context) {
	if t.on(c) {
		t.snap(c, ctx, "S3 end-entry")
	}
}
func (t *Tracer) EndBlockExit(c *Chain, ctx sdk.Context, err error) {
	if t.on(c) {
		t.snap(c, ctx, fmt.Sprintf("S4 end-exit err=%v", err))
	}
}
func (t *Tracer) AfterCommit(c *Chain, ctx sdk.Context, br *BlockResult) {
	if br.Height >= t.From && br.Height <= t.To {
		for i, tr := range br.Res.TxResults {
			if tr.Code != 0 && !(i == 0 && br.Height > 1) {
				fmt.Fprintf(os.Stderr, "TRACE   txres#%d code=%d log=%s\n", i, tr.Code, firstLines(tr.Log, 2))
			}
		}
		for _, e := range br.Res.Events {
			fmt.Fprintf(os.Stderr, "TRACE   blockevent %s %v\n", e.Type, e.Attributes)
		}
	}
}

// DebugTracer, when set, is appended to the monitors of every case (vh run -trace a:b).
var DebugTracer *Tracer
