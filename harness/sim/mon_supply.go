package sim

import (
	"encoding/hex"
	"fmt"
	"math/big"
	"strings"
	"time"

	bridgetypes "github.com/tellor-io/layer/x/bridge/types"
	disputetypes "github.com/tellor-io/layer/x/dispute/types"
	minttypes "github.com/tellor-io/layer/x/mint/types"
	oracletypes "github.com/tellor-io/layer/x/oracle/types"
	reportertypes "github.com/tellor-io/layer/x/reporter/types"

	"cosmossdk.io/collections"
	"cosmossdk.io/math"

	sdk "github.com/cosmos/cosmos-sdk/types"
	authtypes "github.com/cosmos/cosmos-sdk/x/auth/types"
	bankkeeper "github.com/cosmos/cosmos-sdk/x/bank/keeper"
	banktypes "github.com/cosmos/cosmos-sdk/x/bank/types"
)

func supply(c *Chain, ctx sdk.Context) math.Int { return c.App.BankKeeper.GetSupply(ctx, Denom).Amount }

// C03Monitor: shadow ledger of the total supply (DESIGN.md §4 C03). Every observation point compares the
// bank's supply with the previous value plus the delta the statement allows for what just happened.
type C03Monitor struct {
	claimedDeposits map[uint64]bool // deposit ids an accepted claim has named
	BaseMonitor
	st          *Stats
	prev        math.Int
	mintedTotal math.Int
	mintStart   int64 // unix ms of the first previous-block-time seen with an initialised minter
	s1Minter    minttypes.Minter
	s1TBR, s1FC math.Int
	pendingBurn math.Int // Σ BurnAmount of disputes that may execute in this BeginBlock
	pendingIds  []uint64 // their ids
	// actual time of the previous block, valid when the minter was already initialised at that block's BeginBlock
	// (then that block recorded its own time as the start of the next mint interval)
	lastBlockTime  time.Time
	lastBlockInit  bool
	mintStartExact time.Time
	initAt         time.Time // time of the block in which the minter was seen initialised for the first time
	wasInit        bool
}

func NewC03Monitor(st *Stats) *C03Monitor {
	return &C03Monitor{st: st, mintedTotal: math.ZeroInt()}
}
func (m *C03Monitor) Name() string { return "c03" }

func (m *C03Monitor) BeforeBlock(c *Chain, ctx sdk.Context) { m.prev = supply(c, ctx) }

func (m *C03Monitor) BeginBlockEntry(c *Chain, ctx sdk.Context) {
	s := supply(c, ctx)
	m.st.Count("c03.evals")
	if !s.Equal(m.prev) && ctx.BlockHeight() > 1 {
		c.Violate("C03", "c03", "supply-changed-in-preblock", map[string]interface{}{"before": m.prev.String(), "after": s.String()})
	}
	m.prev = s
	m.s1Minter, _ = c.App.MintKeeper.Minter.Get(ctx)
	m.s1TBR = modBal(c, ctx, minttypes.TimeBasedRewards)
	m.s1FC = modBal(c, ctx, authtypes.FeeCollectorName)
	m.pendingBurn = math.ZeroInt()
	m.pendingIds = m.pendingIds[:0]
	_ = c.App.DisputeKeeper.Disputes.Walk(ctx, nil, func(id uint64, d disputetypes.Dispute) (bool, error) {
		if v, err := c.App.DisputeKeeper.Votes.Get(ctx, id); err != nil || !v.Executed {
			m.pendingBurn = m.pendingBurn.Add(d.BurnAmount)
			m.pendingIds = append(m.pendingIds, id)
		}
		return false, nil
	})
}

func (m *C03Monitor) BeginBlockExit(c *Chain, ctx sdk.Context, err error) {
	if err != nil {
		return
	}
	s := supply(c, ctx)
	m.st.Count("c03.evals")
	expMint := math.ZeroInt()
	gapClass := "none"
	if m.s1Minter.Initialized && m.s1Minter.PreviousBlockTime != nil {
		dms := ctx.BlockTime().Sub(*m.s1Minter.PreviousBlockTime).Milliseconds()
		if m.lastBlockInit {
			// the statement's "elapsed milliseconds" are those since the previous block: measured on the real block
			// times, not on what the module stored as previous block time
			real := ctx.BlockTime().Sub(m.lastBlockTime).Milliseconds()
			m.st.Bucket("c03|mint-interval|submillisecond-part=%v|stored-prev-equals-real=%v", ctx.BlockTime().Nanosecond()%1_000_000 != 0 || m.lastBlockTime.Nanosecond()%1_000_000 != 0, real == dms)
			if real != dms {
				c.Violate("C03", "c03", "mint-interval-not-elapsed-milliseconds-since-previous-block", map[string]interface{}{"stored_previous": m.s1Minter.PreviousBlockTime.String(), "real_previous": m.lastBlockTime.String(), "now": ctx.BlockTime().String()})
			}
			dms = real
		}
		// floor(146 940 000 * dms / 86 400 000), big-integer arithmetic
		x := new(big.Int).Mul(big.NewInt(146_940_000), big.NewInt(dms))
		x.Quo(x, big.NewInt(86_400_000))
		expMint = math.NewIntFromBigInt(x)
		switch {
		case dms <= 2:
			gapClass = "<=2ms"
		case dms < 60_000:
			gapClass = "<1min"
		case dms < 86_400_000:
			gapClass = "<1d"
		default:
			gapClass = ">=1d"
		}
		if m.mintStart == 0 {
			m.mintStart = m.s1Minter.PreviousBlockTime.UnixMilli()
		}
	}
	// "time-based minting after governance has started it": whatever the module stored as previous block time, the
	// first provision cannot cover time before the block in which the minter was started
	if m.s1Minter.Initialized && !m.lastBlockInit && !m.initAt.IsZero() {
		dmsInit := ctx.BlockTime().Sub(m.initAt).Milliseconds()
		x := new(big.Int).Mul(big.NewInt(146_940_000), big.NewInt(dmsInit))
		x.Quo(x, big.NewInt(86_400_000))
		m.st.Bucket("c03|first-provision-after-start|stored-previous-time=%v", m.s1Minter.PreviousBlockTime != nil)
		if bound := math.NewIntFromBigInt(x); expMint.GT(bound) {
			c.Violate("C03", "c03", "provision-covers-time-before-the-minter-was-started", map[string]interface{}{"provision_by_stored_time": expMint.String(), "bound_since_start": bound.String(), "started_at": m.initAt.String(), "stored_previous": fmt.Sprint(m.s1Minter.PreviousBlockTime)})
			expMint = bound
		}
	}
	delta := s.Sub(m.prev)
	burn := expMint.Sub(delta) // what must have been burned by dispute execution
	m.st.Bucket("c03|beginblock|mint=%s|burn=%v", gapClass, burn.IsPositive())
	if burn.IsNegative() {
		c.Violate("C03", "c03", "beginblock-minted-more-than-rate", map[string]interface{}{"delta": delta.String(), "expected_mint": expMint.String()})
	} else if burn.GT(m.pendingBurn) {
		c.Violate("C03", "c03", "beginblock-burned-more-than-dispute-burns", map[string]interface{}{"delta": delta.String(), "expected_mint": expMint.String(), "max_dispute_burn": m.pendingBurn.String()})
	}
	// ... and not less (added after C03-j): a dispute executed in this BeginBlock burns its burn amount except the part
	// that became its voters' reward pot (one unit may be lost to halving an odd amount)
	minBurn, executed := math.ZeroInt(), 0
	for _, id := range m.pendingIds {
		if v, err := c.App.DisputeKeeper.Votes.Get(ctx, id); err == nil && v.Executed {
			if d, err := c.App.DisputeKeeper.Disputes.Get(ctx, id); err == nil {
				executed++
				if x := d.BurnAmount.Sub(d.VoterReward).SubRaw(1); x.IsPositive() {
					minBurn = minBurn.Add(x)
				}
				m.st.Bucket("c03|dispute-executed|voter-pot=%v", d.VoterReward.IsPositive())
			}
		}
	}
	if executed > 0 {
		m.st.Count("c03.dispute-burn.evals")
		if burn.LT(minBurn) {
			c.Violate("C03", "c03", "beginblock-burned-less-than-the-executed-disputes-burn-amounts", map[string]interface{}{"burned": burn.String(), "min": minBurn.String(), "executed": executed})
		}
	}
	// split: one quarter (floor) to the fee collector, the rest to time based rewards. The fee collector
	// is emptied by x/distribution in the same BeginBlock (after mint), so only the TBR side is observable exactly.
	if expMint.IsPositive() {
		tbr := modBal(c, ctx, minttypes.TimeBasedRewards)
		want := expMint.Sub(expMint.QuoRaw(4))
		if !tbr.Sub(m.s1TBR).Equal(want) {
			c.Violate("C03", "c03", "mint-split", map[string]interface{}{"tbr_delta": tbr.Sub(m.s1TBR).String(), "want_three_quarters": want.String(), "minted": expMint.String()})
		}
		m.mintedTotal = m.mintedTotal.Add(expMint)
		// cumulative inflation bound
		if m.mintStart != 0 {
			el := ctx.BlockTime().UnixMilli() - m.mintStart
			x := new(big.Int).Mul(big.NewInt(146_940_000), big.NewInt(el))
			x.Quo(x, big.NewInt(86_400_000))
			if m.mintedTotal.GT(math.NewIntFromBigInt(x)) {
				c.Violate("C03", "c03", "cumulative-inflation-above-rate", map[string]interface{}{"minted": m.mintedTotal.String(), "bound": x.String()})
			}
		}
	}
	m.prev = s
	m.lastBlockTime, m.lastBlockInit = ctx.BlockTime(), m.s1Minter.Initialized && !ctx.BlockTime().IsZero()
}

// DecodeDepositAmount reads (address,string,uint256 amount,uint256 tip) independently of the chain's decoder.
func DecodeDepositAmount(valueHex string) (amount, tip *big.Int, recipient string, ok bool) {
	bz, err := hex.DecodeString(strings.TrimPrefix(strings.TrimPrefix(valueHex, "0x"), "0X"))
	if err != nil || len(bz) < 128 {
		return nil, nil, "", false
	}
	amount = new(big.Int).SetBytes(bz[64:96])
	tip = new(big.Int).SetBytes(bz[96:128])
	off := new(big.Int).SetBytes(bz[32:64])
	if !off.IsInt64() || off.Int64()+32 > int64(len(bz)) {
		return amount, tip, "", false
	}
	o := off.Int64()
	ln := new(big.Int).SetBytes(bz[o : o+32])
	if !ln.IsInt64() || o+32+ln.Int64() > int64(len(bz)) {
		return amount, tip, "", false
	}
	recipient = string(bz[o+32 : o+32+ln.Int64()])
	return amount, tip, recipient, true
}

func (m *C03Monitor) expectedTxDelta(c *Chain, ctx sdk.Context, tx sdk.Tx) (lo, hi math.Int, class string) {
	lo, hi = math.ZeroInt(), math.ZeroInt()
	class = "zero"
	for _, msg := range tx.GetMsgs() {
		switch x := msg.(type) {
		case *oracletypes.MsgTip:
			b := x.Amount.Amount.MulRaw(2).QuoRaw(100)
			lo, hi = lo.Sub(b), hi.Sub(b)
			class = "tip-burn"
		case *bridgetypes.MsgWithdrawTokens:
			lo, hi = lo.Sub(x.Amount.Amount), hi.Sub(x.Amount.Amount)
			class = "withdrawal"
		case *bridgetypes.MsgClaimDepositsRequest:
			for i, id := range x.DepositIds {
				qid := QueryID(BridgeQuery(true, id))
				agg, _, err := ownAggregateByIndex(c, ctx, qid, x.Indices[i])
				if err != nil || agg == nil {
					continue
				}
				// "claimed bridge deposits (plus the reported amount)": a deposit id adds its amount to the supply once,
				// however often and with whatever index it is named again (own record of the ids that were claimed)
				if m.claimedDeposits == nil {
					m.claimedDeposits = map[uint64]bool{}
				}
				if m.claimedDeposits[id] {
					m.st.Count("c03.claim-of-an-already-claimed-deposit.evals")
					continue
				}
				m.claimedDeposits[id] = true
				if amt, _, _, ok := DecodeDepositAmount(agg.AggregateValue); ok {
					a := math.NewIntFromBigInt(new(big.Int).Quo(amt, big.NewInt(1_000_000_000_000)))
					lo, hi = lo.Add(a), hi.Add(a)
				}
			}
			class = "deposit"
		case *disputetypes.MsgWithdrawFeeRefund:
			// accumulated sub-unit dust may be burned: at most one unit per truncating division of this call (two) plus the stored dust
			lo = lo.SubRaw(3)
			class = "dust-burn"
		}
	}
	return
}

func (m *C03Monitor) AfterTx(c *Chain, ctx sdk.Context, tx sdk.Tx, ok bool) {
	s := supply(c, ctx)
	m.st.Count("c03.evals")
	name, _ := layerMsg(tx)
	if !ok {
		// the branch of a failed tx is discarded by baseapp; what the post handler sees of it is not state
		return
	}
	lo, hi, class := m.expectedTxDelta(c, ctx, tx)
	d := s.Sub(m.prev)
	m.st.Bucket("c03|tx|%s|%s|changed=%v", name, class, !d.IsZero())
	if d.LT(lo) || d.GT(hi) {
		c.Violate("C03", "c03", "tx-supply-delta:"+name+":"+class, map[string]interface{}{"delta": d.String(), "allowed_lo": lo.String(), "allowed_hi": hi.String()})
	}
	m.prev = s
}

func (m *C03Monitor) EndBlockEntry(c *Chain, ctx sdk.Context) { m.prev = supply(c, ctx) }

func (m *C03Monitor) EndBlockExit(c *Chain, ctx sdk.Context, err error) {
	if err != nil {
		return
	}
	s := supply(c, ctx)
	m.st.Count("c03.evals")
	if !s.Equal(m.prev) {
		c.Violate("C03", "c03", "supply-changed-in-endblock", map[string]interface{}{"before": m.prev.String(), "after": s.String()})
	}
	m.prev = s
}

func (m *C03Monitor) AfterCommit(c *Chain, ctx sdk.Context, br *BlockResult) {
	if mn, err := c.App.MintKeeper.Minter.Get(ctx); err == nil {
		if mn.Initialized && !m.wasInit {
			m.initAt = ctx.BlockTime()
		}
		m.wasInit = mn.Initialized
	}
	// Σ balances == supply, and the SDK's own invariant
	sum := math.ZeroInt()
	c.App.BankKeeper.IterateAllBalances(ctx, func(_ sdk.AccAddress, coin sdk.Coin) bool {
		if coin.Denom == Denom {
			sum = sum.Add(coin.Amount)
		}
		return false
	})
	s := supply(c, ctx)
	m.st.Count("c03.balance-sum.evals")
	if !sum.Equal(s) {
		c.Violate("C03", "c03", "sum-of-balances-differs-from-supply", map[string]interface{}{"sum": sum.String(), "supply": s.String()})
	}
	if msg, broken := bankkeeper.TotalSupply(c.App.BankKeeper)(ctx); broken {
		c.Violate("C03", "c03", "bank-total-supply-invariant", map[string]interface{}{"msg": firstLines(msg, 5)})
	}
}

// ---------------------------------------------------------------------------------------------

// C04Monitor: escrow accounts cover what the chain says it owes (DESIGN.md §4 C04).
type C04Monitor struct {
	BaseMonitor
	st           *Stats
	credits      math.LegacyDec // cumulative positive changes of SelectorTips
	inflow       math.Int       // cumulative inflow into tips escrow
	tipsAtS3     map[string]math.LegacyDec
	escrowAtS3   math.Int
	oracleBroken bool
	tipsBroken   bool
	dispBroken   bool
	fromBond     int64               // accepted fee payments from stake so far
	dispPrev     math.Int            // dispute module balance at the last observation point
	rewardPaid   map[uint64]math.Int // dispute id -> voter rewards paid out so far
	ncredits     int64               // credits written so far (each may carry one ulp of rounding)
}

func NewC04Monitor(st *Stats) *C04Monitor {
	return &C04Monitor{st: st, credits: math.LegacyZeroDec(), inflow: math.ZeroInt()}
}
func (m *C04Monitor) Name() string { return "c04" }

func selectorTips(c *Chain, ctx sdk.Context) (map[string]math.LegacyDec, math.LegacyDec) {
	out := map[string]math.LegacyDec{}
	sum := math.LegacyZeroDec()
	_ = c.App.ReporterKeeper.SelectorTips.Walk(ctx, nil, func(k []byte, v math.LegacyDec) (bool, error) {
		out[string(k)] = v
		sum = sum.Add(v)
		return false, nil
	})
	return out, sum
}

func (m *C04Monitor) EndBlockEntry(c *Chain, ctx sdk.Context) {
	m.tipsAtS3, _ = selectorTips(c, ctx)
	m.escrowAtS3 = modBal(c, ctx, reportertypes.TipsEscrowPool)
}

func (m *C04Monitor) EndBlockExit(c *Chain, ctx sdk.Context, err error) {
	if err != nil {
		return
	}
	after, _ := selectorTips(c, ctx)
	n := 0
	for k, v := range after {
		old, ok := m.tipsAtS3[k]
		if !ok {
			old = math.LegacyZeroDec()
		}
		if v.GT(old) {
			m.credits = m.credits.Add(v.Sub(old))
			n++
			m.ncredits++
		}
		if v.LT(old) {
			c.Violate("C04", "c04", "credit-decreased-in-endblock", map[string]interface{}{"selector": sdk.AccAddress(k).String(), "before": old.String(), "after": v.String()})
		}
	}
	in := modBal(c, ctx, reportertypes.TipsEscrowPool).Sub(m.escrowAtS3)
	m.inflow = m.inflow.Add(in)
	if n > 0 || !in.IsZero() {
		m.st.Count("c04.credit.evals")
		m.st.Bucket("c04|payout|credited=%d|inflow=%v", minInt(n, 6), in.IsPositive())
		// credits never exceed what was paid in (one ulp of the 18-decimal fixed point per credit tolerated)
		if m.credits.GT(math.LegacyNewDecFromInt(m.inflow).Add(math.LegacyNewDecWithPrec(m.ncredits+1, 18))) {
			c.Violate("C04", "c04", "credits-exceed-pay-ins", map[string]interface{}{"credits": m.credits.String(), "inflow": m.inflow.String()})
		}
	}
}

func (m *C04Monitor) BeforeBlock(c *Chain, ctx sdk.Context) {
	m.dispPrev = modBal(c, ctx, disputetypes.ModuleName)
}
func (m *C04Monitor) BeginBlockExit(c *Chain, ctx sdk.Context, err error) {
	m.dispPrev = modBal(c, ctx, disputetypes.ModuleName)
}

func (m *C04Monitor) AfterTx(c *Chain, ctx sdk.Context, tx sdk.Tx, ok bool) {
	if !ok {
		return
	}
	disp := modBal(c, ctx, disputetypes.ModuleName)
	defer func() { m.dispPrev = disp }()
	for _, msg := range tx.GetMsgs() {
		switch x := msg.(type) {
		case *disputetypes.MsgClaimReward:
			// the voters of a dispute share its voter reward: once more than that has left the dispute account for them, the
			// account no longer covers the unclaimed rewards, fees and stake of the other disputes
			if d, err := c.App.DisputeKeeper.Disputes.Get(ctx, x.DisputeId); err == nil && !m.dispPrev.IsNil() {
				if m.rewardPaid == nil {
					m.rewardPaid = map[uint64]math.Int{}
				}
				key := x.DisputeId
				if len(d.PrevDisputeIds) > 0 {
					key = d.PrevDisputeIds[0]
				}
				paid := m.dispPrev.Sub(disp)
				if old, ok := m.rewardPaid[key]; ok {
					paid = paid.Add(old)
				}
				m.rewardPaid[key] = paid
				m.st.Count("c04.reward-pot.evals")
				if paid.GT(d.VoterReward) {
					c.Violate("C04", "c04", "voter-rewards-paid-out-exceed-the-disputes-voter-reward", map[string]interface{}{"id": x.DisputeId, "paid_so_far": paid.String(), "voter_reward": d.VoterReward.String()})
				}
			}
		case *disputetypes.MsgProposeDispute:
			if x.PayFromBond {
				m.fromBond++
			}
		case *disputetypes.MsgAddFeeToDispute:
			if x.PayFromBond {
				m.fromBond++
			}
		case *disputetypes.MsgWithdrawFeeRefund:
			// only sub-unit dust may be taken out of dispute escrow by burning: a refund burns the whole units of the
			// accumulated dust, so at least one whole unit of "dust" left behind means units were burned (now or
			// later) that are owed to somebody
			if dust, err := c.App.DisputeKeeper.Dust.Get(ctx); err == nil {
				m.st.Count("c04.dust.evals")
				if dust.GTE(math.NewInt(1_000_000)) || dust.IsNegative() {
					c.Violate("C04", "c04", "dispute-escrow-dust-store-holds-whole-units-after-refund", map[string]interface{}{"id": x.Id, "dust_millionths": dust.String()})
				}
			}
		}
	}
}

func (m *C04Monitor) AfterCommit(c *Chain, ctx sdk.Context, br *BlockResult) {
	a := c.App
	m.st.Count("c04.boundary.evals")
	// oracle account == Σ unpaid tips of open queries
	sumQ := math.ZeroInt()
	nq := 0
	_ = a.OracleKeeper.Query.Walk(ctx, nil, func(k collections.Pair[[]byte, uint64], q oracletypes.QueryMeta) (bool, error) {
		sumQ = sumQ.Add(q.Amount)
		if q.Amount.IsPositive() {
			nq++
		}
		return false, nil
	})
	ob := modBal(c, ctx, oracletypes.ModuleName)
	bad := !ob.Equal(sumQ)
	if bad && !m.oracleBroken {
		c.Violate("C04", "c04", "oracle-account-differs-from-open-tips", map[string]interface{}{"balance": ob.String(), "sum_query_amounts": sumQ.String()})
	}
	m.oracleBroken = bad
	// tips escrow >= Σ credits
	_, sumTips := selectorTips(c, ctx)
	eb := modBal(c, ctx, reportertypes.TipsEscrowPool)
	// 18-decimal credits carry up to one ulp (1e-18 loya) of rounding each (C09 allows that); whole units are what is withdrawable
	bad = math.LegacyNewDecFromInt(eb).Add(math.LegacyNewDecWithPrec(m.ncredits+1, 18)).LT(sumTips)
	if bad && !m.tipsBroken {
		c.Violate("C04", "c04", "tips-escrow-below-credits", map[string]interface{}{"balance": eb.String(), "sum_selector_tips": sumTips.String()})
	}
	m.tipsBroken = bad
	// bridge account holds nothing
	if bb := modBal(c, ctx, bridgetypes.ModuleName); !bb.IsZero() {
		c.Violate("C04", "c04", "bridge-account-not-empty", map[string]interface{}{"balance": bb.String()})
	}
	// dispute account >= fees + escrowed stake of disputes that were not executed yet (lower bound of its liabilities)
	owed := math.ZeroInt()
	seen := map[string]bool{}
	var ids []uint64
	ds := map[uint64]disputetypes.Dispute{}
	_ = a.DisputeKeeper.Disputes.Walk(ctx, nil, func(id uint64, d disputetypes.Dispute) (bool, error) {
		ids = append(ids, id)
		ds[id] = d
		return false, nil
	})
	unsettled := 0
	for i := len(ids) - 1; i >= 0; i-- { // latest round of each dispute chain first
		d := ds[ids[i]]
		h := string(d.HashId)
		if seen[h] {
			continue
		}
		seen[h] = true
		if d.DisputeStatus == disputetypes.Failed {
			continue
		}
		v, err := a.DisputeKeeper.Votes.Get(ctx, d.DisputeId)
		if err == nil && v.Executed {
			continue
		}
		unsettled++
		owed = owed.Add(d.FeeTotal)
		if has, _ := a.ReporterKeeper.DisputedDelegationAmounts.Has(ctx, d.HashId); has {
			owed = owed.Add(d.SlashAmount)
		}
	}
	db := modBal(c, ctx, disputetypes.ModuleName)
	bad = db.LT(owed)
	if bad && !m.dispBroken {
		// discriminating fact: a fee paid from stake is collected per selector with truncation, so up to a few
		// units per such payment may be missing (known finding); anything larger is a different defect
		class := "large"
		if owed.Sub(db).LTE(math.NewInt(m.fromBond*8)) && m.fromBond > 0 {
			class = "within-fee-from-stake-rounding"
		}
		c.Violate("C04", "c04", "dispute-account-below-unsettled-fees-and-stake:"+class, map[string]interface{}{"balance": db.String(), "owed_lower_bound": owed.String(), "fee_from_stake_payments": m.fromBond})
	}
	m.dispBroken = bad
	m.st.Bucket("c04|boundary|tipped_queries=%d|unsettled=%d|credits=%v", minInt(nq, 4), minInt(unsettled, 4), sumTips.IsPositive())
	// an entitled claim / withdrawal never fails for lack of funds
	for i, tr := range br.Res.TxResults {
		if tr.Code == 0 || (i == 0 && br.Height > 1) {
			continue
		}
		// a transaction whose signer cannot pay the fee fails in the ante handler with the same words: only failures of
		// the message itself count
		if !strings.Contains(tr.Log, "failed to execute message") {
			continue
		}
		if strings.Contains(tr.Log, "insufficient funds") || strings.Contains(tr.Log, "negative coin amount") {
			tx, err := a.TxConfig().TxDecoder()(br.Txs[i])
			if err != nil {
				continue
			}
			for _, msg := range tx.GetMsgs() {
				switch msg.(type) {
				case *reportertypes.MsgWithdrawTip, *disputetypes.MsgWithdrawFeeRefund, *disputetypes.MsgClaimReward:
					c.Violate("C04", "c04", "entitled-claim-failed-for-funds:"+sdk.MsgTypeURL(msg), map[string]interface{}{"log": firstLines(tr.Log, 2)})
				}
			}
		}
	}
}

var _ = banktypes.ModuleName
