package sim

import (
	"fmt"
	"math/big"
	"sort"
	"strings"

	oracletypes "github.com/tellor-io/layer/x/oracle/types"

	"cosmossdk.io/collections"
	"cosmossdk.io/math"

	sdk "github.com/cosmos/cosmos-sdk/types"
)

// ---- C06: the aggregate is the weighted median / weighted mode by definition ----

type aggFn func(reports []oracletypes.MicroReport) (*oracletypes.Aggregate, error)

func cloneReports(in []oracletypes.MicroReport) []oracletypes.MicroReport {
	out := make([]oracletypes.MicroReport, len(in))
	copy(out, in)
	return out
}

func valNum(v string) *big.Int {
	n, ok := new(big.Int).SetString(v, 16)
	if !ok {
		return nil
	}
	return n
}

// checkAggregate evaluates the definition-level predicates of C06 for one call.
func checkAggregate(l *LabCtx, method string, reports []oracletypes.MicroReport, agg *oracletypes.Aggregate, err error) (value string, ok bool) {
	fail := func(sig string, extra map[string]interface{}) {
		d := map[string]interface{}{"method": method, "reports": describeReports(reports)}
		for k, v := range extra {
			d[k] = v
		}
		l.Violate("C06", "c06", method+":"+sig, d)
	}
	return aggregateDefects(method, reports, agg, err, fail)
}

// aggregateDefects is the definition-level oracle shared by the lab (direct calls) and the chain monitor (aggregates the
// EndBlocker stored): fail is called for every clause of C06 the aggregate violates.
func aggregateDefects(method string, reports []oracletypes.MicroReport, agg *oracletypes.Aggregate, err error, fail func(sig string, extra map[string]interface{})) (value string, ok bool) {
	if err != nil || agg == nil {
		fail("error-on-valid-input", map[string]interface{}{"err": fmt.Sprint(err)})
		return "", false
	}
	var total uint64
	for _, r := range reports {
		total += r.Power
	}
	if agg.ReporterPower != total {
		fail("reporter-power-not-sum", map[string]interface{}{"got": agg.ReporterPower, "want": total})
	}
	// every report listed exactly once
	want := map[string]int{}
	for _, r := range reports {
		want[fmt.Sprintf("%s|%d|%d", r.Reporter, r.Power, r.BlockNumber)]++
	}
	for _, a := range agg.Reporters {
		want[fmt.Sprintf("%s|%d|%d", a.Reporter, a.Power, a.BlockNumber)]--
	}
	for k, v := range want {
		if v != 0 {
			fail("reporters-not-a-permutation", map[string]interface{}{"entry": k, "diff": v})
			break
		}
	}
	if len(agg.Reporters) != len(reports) {
		fail("reporters-length", map[string]interface{}{"got": len(agg.Reporters), "want": len(reports)})
	}
	// the named reporter reported the chosen value and the index points at it
	named := false
	for _, r := range reports {
		if r.Reporter == agg.AggregateReporter && r.Value == agg.AggregateValue {
			named = true
		}
	}
	if !named {
		fail("aggregate-reporter-did-not-report-value", map[string]interface{}{"reporter": agg.AggregateReporter, "value": agg.AggregateValue})
	}
	if int(agg.AggregateReportIndex) >= len(agg.Reporters) || agg.Reporters[agg.AggregateReportIndex].Reporter != agg.AggregateReporter {
		fail("aggregate-report-index-wrong", map[string]interface{}{"index": agg.AggregateReportIndex})
	}
	switch method {
	case "median":
		v := valNum(agg.AggregateValue)
		if v == nil {
			fail("value-not-numeric", nil)
			return agg.AggregateValue, false
		}
		below, upto := new(big.Int), new(big.Int)
		for _, r := range reports {
			c := valNum(r.Value).Cmp(v)
			p := new(big.Int).SetUint64(r.Power)
			if c < 0 {
				below.Add(below, p)
			}
			if c <= 0 {
				upto.Add(upto, p)
			}
		}
		t := new(big.Int).SetUint64(total)
		if new(big.Int).Lsh(below, 1).Cmp(t) > 0 || new(big.Int).Lsh(upto, 1).Cmp(t) < 0 {
			fail("not-the-weighted-median", map[string]interface{}{"value": agg.AggregateValue, "below": below.String(), "upto": upto.String(), "total": t.String()})
		}
		return v.String(), true
	default:
		w := map[string]uint64{}
		for _, r := range reports {
			w[r.Value] += r.Power
		}
		var max uint64
		for _, x := range w {
			if x > max {
				max = x
			}
		}
		if w[agg.AggregateValue] != max {
			fail("not-a-maximal-weight-value", map[string]interface{}{"value": agg.AggregateValue, "weight": w[agg.AggregateValue], "max": max})
		}
		return agg.AggregateValue, true
	}
}

func describeReports(rs []oracletypes.MicroReport) []string {
	var out []string
	for _, r := range rs {
		v := r.Value
		if len(v) > 24 {
			v = v[:10] + "…" + v[len(v)-10:]
		}
		out = append(out, fmt.Sprintf("%s:p=%d:v=%s", r.Reporter[len(r.Reporter)-4:], r.Power, v))
	}
	return out
}

func (l *LabCtx) aggFns() map[string]aggFn {
	k := l.C.App.OracleKeeper
	return map[string]aggFn{
		"median": func(rs []oracletypes.MicroReport) (*oracletypes.Aggregate, error) {
			return k.WeightedMedian(l.Ctx, rs, 7)
		},
		"mode": func(rs []oracletypes.MicroReport) (*oracletypes.Aggregate, error) {
			return k.WeightedMode(l.Ctx, rs, 7)
		},
	}
}

// checkAllOrders: definition predicates for the given order plus order independence over the permutations given.
func checkAllOrders(l *LabCtx, method string, f aggFn, reports []oracletypes.MicroReport, perms [][]int, bucket string) {
	l.St.Count("c06.calls")
	agg, err := f(cloneReports(reports))
	v0, ok := checkAggregate(l, method, reports, agg, err)
	if !ok {
		return
	}
	l.St.Bucket("c06|%s|%s", method, bucket)
	for _, p := range perms {
		rs := make([]oracletypes.MicroReport, len(reports))
		for i, j := range p {
			rs[i] = reports[j]
		}
		l.St.Count("c06.calls")
		a2, e2 := f(cloneReports(rs))
		v2, ok2 := checkAggregate(l, method, rs, a2, e2)
		if ok2 && v2 != v0 {
			l.Violate("C06", "c06", method+":value-depends-on-arrival-order", map[string]interface{}{"first": v0, "other": v2, "reports": describeReports(reports), "perm": fmt.Sprint(p)})
			return
		}
	}
	// same input again: map iteration order must not matter (C01)
	for i := 0; i < 3; i++ {
		a3, e3 := f(cloneReports(reports))
		if e3 == nil && a3 != nil {
			v3 := a3.AggregateValue
			if method == "median" {
				v3 = valNum(v3).String()
			}
			if v3 != v0 {
				l.Violate("C06", "c06", method+":value-differs-between-identical-calls", map[string]interface{}{"first": v0, "other": v3, "reports": describeReports(reports)})
				return
			}
		}
	}
}

func permutations(n int) [][]int {
	var out [][]int
	var rec func(a []int, k int)
	rec = func(a []int, k int) {
		if k == n {
			out = append(out, append([]int{}, a...))
			return
		}
		for i := k; i < n; i++ {
			a[k], a[i] = a[i], a[k]
			rec(a, k+1)
			a[k], a[i] = a[i], a[k]
		}
	}
	a := make([]int, n)
	for i := range a {
		a[i] = i
	}
	rec(a, 0)
	return out
}

func mkReport(i int, power uint64, value string) oracletypes.MicroReport {
	return oracletypes.MicroReport{Reporter: fmt.Sprintf("tellor1reporter%04d", i), Power: power, QueryId: []byte("qid"), Value: value, BlockNumber: uint64(10 + i%3), AggregateMethod: "x"}
}

func c06Once(l *LabCtx) {
	// exhaustive: n<=4 reporters x powers {1,2,3} x values {3 distinct} x all arrival orders
	vals := []string{"0a", "0b", "1f"}
	fns := l.aggFns()
	for n := 1; n <= 4; n++ {
		perms := permutations(n)
		tot := 1
		for i := 0; i < n; i++ {
			tot *= 9
		}
		for code := 0; code < tot; code++ {
			c := code
			rs := make([]oracletypes.MicroReport, n)
			for i := 0; i < n; i++ {
				d := c % 9
				c /= 9
				rs[i] = mkReport(i, uint64(1+d%3), vals[d/3])
			}
			for _, m := range []string{"median", "mode"} {
				checkAllOrders(l, m, fns[m], rs, perms[1:], fmt.Sprintf("exhaustive|n=%d", n))
			}
		}
	}
	l.St.Count("c06.exhaustive-grid-complete")
}

// c06EndBlock: the path the chain really takes - a round with n stored reports (n up to 230: "reporter counts" beyond any
// page size) whose window has closed is aggregated by the oracle module's SetAggregatedReport, and the stored aggregate
// is judged by the definition against exactly those reports.
func c06EndBlock(l *LabCtx) {
	r := l.R
	k := l.C.App.OracleKeeper
	n := []int{2, 3, 7, 99, 100, 101, 130, 230}[r.Pick(8)]
	method := []string{"median", "mode"}[r.Pick(2)]
	qd := []byte(fmt.Sprintf("lab-query-%d", r.Intn(1<<30)))
	qid := QueryID(qd)
	const metaId = 987_654
	h := uint64(l.Ctx.BlockHeight())
	vals := []string{"0a", "14", "1e", "28"}
	var reports []oracletypes.MicroReport
	for i := 0; i < n; i++ {
		addr := make([]byte, 20)
		for j := range addr {
			addr[j] = byte(r.Intn(256))
		}
		// most of the weight sits with the reporters that sort last
		p := uint64(1 + r.Pick(3))
		if addr[0] >= 200 {
			p = uint64(50 + r.Pick(50))
		}
		mr := oracletypes.MicroReport{Reporter: sdk.AccAddress(addr).String(), Power: p, QueryType: "LabType", QueryId: qid, Value: vals[r.Pick(len(vals))], Timestamp: l.Ctx.BlockTime(), BlockNumber: h - 1,
			AggregateMethod: map[string]string{"median": "weighted-median", "mode": "weighted-mode"}[method]}
		if addr[0] >= 200 {
			mr.Value = vals[3]
		}
		if err := k.Reports.Set(l.Ctx, collections.Join3(qid, addr, uint64(metaId)), mr); err != nil {
			return
		}
		reports = append(reports, mr)
	}
	qm := oracletypes.QueryMeta{Id: metaId, Amount: math.ZeroInt(), Expiration: h, RegistrySpecBlockWindow: 2, HasRevealedReports: true, QueryData: qd, QueryType: "LabType"}
	if err := k.Query.Set(l.Ctx, collections.Join(qid, uint64(metaId)), qm); err != nil {
		return
	}
	l.St.Count("c06.endblock.calls")
	if err := k.SetAggregatedReport(l.Ctx); err != nil {
		l.Violate("C06", "c06", "endblock:"+method+":aggregation-of-a-closed-round-failed", map[string]interface{}{"err": err.Error(), "reports": n})
		return
	}
	var agg *oracletypes.Aggregate
	_ = k.Aggregates.Walk(l.Ctx, collections.NewPrefixedPairRange[[]byte, uint64](qid), func(_ collections.Pair[[]byte, uint64], a oracletypes.Aggregate) (bool, error) {
		cp := a
		agg = &cp
		return true, nil
	})
	l.St.Bucket("c06|endblock|%s|reports=%d|stored=%v", method, n, agg != nil)
	if agg == nil {
		l.Violate("C06", "c06", "endblock:"+method+":no-aggregate-stored-for-a-closed-round-with-reports", map[string]interface{}{"reports": n})
		return
	}
	fail := func(sig string, extra map[string]interface{}) {
		d := map[string]interface{}{"method": method, "reports": n, "first_reports": describeReports(reports[:minInt(len(reports), 6)])}
		for kk, v := range extra {
			d[kk] = v
		}
		l.Violate("C06", "c06", "endblock:"+method+":"+sig, d)
	}
	aggregateDefects(method, reports, agg, nil, fail)
}

func c06One(l *LabCtx) {
	r := l.R
	if r.Chance(0.02) {
		c06EndBlock(l)
		return
	}
	n := 1 + r.Pick(9)
	if r.Chance(0.05) {
		n = 50 + r.Pick(150)
	}
	method := []string{"median", "mode"}[r.Pick(2)]
	// value pool of this input: few distinct values => duplicates and ties
	nv := 1 + r.Pick(5)
	pool := make([]string, nv)
	lenClass := r.Pick(4)
	for i := range pool {
		nb := []int{1, 4, 32, 1 + r.Pick(64)}[lenClass]
		b := make([]byte, nb)
		for j := range b {
			b[j] = byte(r.Intn(256))
		}
		if r.Chance(0.3) {
			b[0] = 0 // leading zero
		}
		pool[i] = fmt.Sprintf("%x", b)
		if r.Chance(0.15) {
			pool[i] = strings.ToUpper(pool[i])
		}
	}
	if r.Chance(0.2) && nv >= 2 && method == "median" {
		// same number, two spellings
		pool[1] = "00" + pool[0]
	}
	powClass := r.Pick(6)
	if powClass == 5 && method == "mode" {
		powClass = 4
	}
	rs := make([]oracletypes.MicroReport, n)
	for i := 0; i < n; i++ {
		var p uint64
		switch powClass {
		case 0:
			p = 1
		case 1:
			p = uint64(1 + r.Pick(3))
		case 2:
			p = 1000 // all equal
		case 3:
			p = uint64(1 + r.Pick(5000))
		case 5:
			// total power between 2^62 and 2^63 ("powers up to beyond the total token supply, total below 2^63")
			p = (uint64(1)<<62 + uint64(r.Int63n(1<<62-1000))) / uint64(n)
			if i == 0 {
				p += uint64(n) // the integer division above may leave the sum just below 2^62
			}
		default:
			if method == "mode" {
				p = uint64(1 + r.Pick(200_000/n+1)) // the implementation loops power times
			} else {
				p = uint64(1+r.Int63n(1<<61)) / uint64(n)
				if p == 0 {
					p = 1
				}
			}
		}
		rs[i] = mkReport(i, p, pool[r.Pick(nv)])
	}
	if r.Chance(0.3) && n >= 2 && n <= 12 {
		// exact half boundary: make the first report hold exactly half of the total
		var rest uint64
		for _, x := range rs[1:] {
			rest += x.Power
		}
		if rest < 1<<61 && powClass != 5 && (method != "mode" || rest < 300_000) {
			rs[0].Power = rest
		}
	}
	// arrival orders: reversed, sorted by value desc, and a few random ones
	var perms [][]int
	rev := make([]int, n)
	for i := range rev {
		rev[i] = n - 1 - i
	}
	perms = append(perms, rev)
	for k := 0; k < 3; k++ {
		perms = append(perms, r.Perm(n))
	}
	byVal := make([]int, n)
	for i := range byVal {
		byVal[i] = i
	}
	sort.Slice(byVal, func(a, b int) bool { return rs[byVal[a]].Value > rs[byVal[b]].Value })
	perms = append(perms, byVal)
	nClass := "n<=3"
	if n > 3 {
		nClass = "n<=9"
	}
	if n > 9 {
		nClass = "n>=50"
	}
	w := map[string]uint64{}
	for _, x := range rs {
		w[x.Value] += x.Power
	}
	var max uint64
	ties := 0
	for _, x := range w {
		if x > max {
			max, ties = x, 1
		} else if x == max {
			ties++
		}
	}
	checkAllOrders(l, method, l.aggFns()[method], rs, perms, fmt.Sprintf("%s|pow=%d|len=%d|distinct=%d|toptie=%d", nClass, powClass, lenClass, minInt(len(w), 4), minInt(ties, 3)))
}

func init() {
	RegisterLab(&LabDef{
		ID:      "C06",
		Inputs:  map[string]int{"quick": 6000, "thorough": 60000},
		Batches: map[string]int{"quick": 8, "thorough": 16},
		One:     c06One,
		Once:    c06Once,
	})
}

// ---- C06 on the chain: every aggregate the oracle EndBlocker stores is judged against the reports of its round ----

type C06ChainMonitor struct {
	BaseMonitor
	st *Stats
}

func NewC06ChainMonitor(st *Stats) *C06ChainMonitor { return &C06ChainMonitor{st: st} }
func (m *C06ChainMonitor) Name() string             { return "c06chain" }

func (m *C06ChainMonitor) EndBlockExit(c *Chain, ctx sdk.Context, err error) {
	if err != nil {
		return
	}
	h := uint64(ctx.BlockHeight())
	aggs := c.App.OracleKeeper.GetAggregatedReportsByHeight(ctx, h)
	nWithReports := 0
	for _, agg := range aggs {
		if len(agg.Reporters) > 0 {
			nWithReports++
		}
	}
	for i := range aggs {
		agg := aggs[i]
		if len(agg.Reporters) == 0 {
			continue // bridge withdrawal aggregate written by a transaction
		}
		var reports []oracletypes.MicroReport
		_ = c.App.OracleKeeper.Reports.Walk(ctx, collections.NewPrefixedTripleRange[[]byte, []byte, uint64](agg.QueryId), func(k collections.Triple[[]byte, []byte, uint64], r oracletypes.MicroReport) (bool, error) {
			if k.K3() == agg.MetaId {
				reports = append(reports, r)
			}
			return false, nil
		})
		if len(reports) == 0 {
			continue
		}
		// the method of the query's type, as recorded in the reports when they were accepted
		method := ""
		mixed := false
		for _, r := range reports {
			mm := "mode"
			if r.AggregateMethod == "weighted-median" {
				mm = "median"
			}
			if method != "" && mm != method {
				mixed = true
			}
			method = mm
		}
		if mixed {
			m.st.Count("c06chain.method-changed-within-round-skipped")
			continue
		}
		m.st.Count("c06chain.aggregate.evals")
		m.st.Bucket("c06chain|%s|reports=%d|aggregates-in-block=%d|position=%d", method, minInt(len(reports), 4), minInt(nWithReports, 3), minInt(i, 2))
		fail := func(sig string, extra map[string]interface{}) {
			d := map[string]interface{}{"method": method, "reports": describeReports(reports), "query_id": fmt.Sprintf("%x", agg.QueryId), "meta_id": agg.MetaId, "aggregates_in_block": nWithReports}
			for k, v := range extra {
				d[k] = v
			}
			c.Violate("C06", "c06chain", "stored-aggregate:"+method+":"+sig, d)
		}
		if method == "median" {
			numeric := valNum(agg.AggregateValue) != nil
			for _, r := range reports {
				numeric = numeric && valNum(r.Value) != nil
			}
			if !numeric {
				m.st.Count("c06chain.non-numeric-median-round-skipped")
				continue
			}
		}
		a := agg
		aggregateDefects(method, reports, &a, nil, fail)
	}
}
