package ref

import (
	"fmt"
	"math/big"
)

// Val is a value with its Solidity type for abi.encode. Supported types: uintN, bool, address, bytes32
// (static), bytes, string (dynamic) and "tuple[]" of static (address,uint256)-like tuples.
type Val struct {
	Type string
	V    interface{}
}

func word(b []byte) []byte { // left padded
	out := make([]byte, 32)
	copy(out[32-len(b):], b)
	return out
}

func wordRight(b []byte) []byte { // right padded (bytesN)
	out := make([]byte, 32)
	copy(out, b)
	return out
}

func uintWord(v interface{}) []byte {
	switch x := v.(type) {
	case uint64:
		return word(new(big.Int).SetUint64(x).Bytes())
	case int:
		return word(big.NewInt(int64(x)).Bytes())
	case *big.Int:
		b := x.Bytes()
		if len(b) > 32 {
			b = b[len(b)-32:]
		}
		return word(b)
	}
	panic(fmt.Sprintf("uint value %T", v))
}

func isDynamic(t string) bool { return t == "bytes" || t == "string" || t == "tuple[]" }

func encStatic(v Val) []byte {
	switch {
	case v.Type == "bool":
		if v.V.(bool) {
			return word([]byte{1})
		}
		return word(nil)
	case v.Type == "address":
		b := v.V.([]byte)
		if len(b) > 20 {
			b = b[len(b)-20:]
		}
		return word(b)
	case v.Type == "bytes32":
		b := v.V.([]byte)
		if len(b) > 32 {
			b = b[:32]
		}
		return wordRight(b)
	case len(v.Type) >= 4 && v.Type[:4] == "uint":
		return uintWord(v.V)
	}
	panic("static type " + v.Type)
}

func pad32(b []byte) []byte {
	out := append([]byte{}, b...)
	for len(out)%32 != 0 {
		out = append(out, 0)
	}
	return out
}

func encDynamic(v Val) []byte {
	switch v.Type {
	case "bytes":
		b := v.V.([]byte)
		return append(uintWord(len(b)), pad32(b)...)
	case "string":
		b := []byte(v.V.(string))
		return append(uintWord(len(b)), pad32(b)...)
	case "tuple[]":
		rows := v.V.([][]Val)
		out := uintWord(len(rows))
		for _, r := range rows {
			for _, f := range r {
				out = append(out, encStatic(f)...)
			}
		}
		return out
	}
	panic("dynamic type " + v.Type)
}

// Encode is Solidity's abi.encode(v...): head (static values / offsets) followed by the tails.
func Encode(vals ...Val) []byte {
	headLen := 32 * len(vals)
	var head, tail []byte
	for _, v := range vals {
		if isDynamic(v.Type) {
			head = append(head, uintWord(headLen+len(tail))...)
			tail = append(tail, encDynamic(v)...)
		} else {
			head = append(head, encStatic(v)...)
		}
	}
	return append(head, tail...)
}
