package ref

import (
	"bytes"
	"crypto/sha256"
	"errors"
	"math/big"

	"github.com/ethereum/go-ethereum/crypto"
)

// Model of BlobstreamO.sol (updateValidatorSet / verifyOracleData / _checkValidatorSignatures), transcribed from
// the Solidity source. secp256k1 public key recovery (the EVM's ecrecover precompile) is taken from a library;
// everything else - hashing, encoding, the acceptance rules - is the code of this package.

type Validator struct {
	Addr  []byte // 20 bytes
	Power uint64
}

type Sig struct {
	V    uint8
	R, S [32]byte
}

func (s Sig) empty() bool { return s.V == 0 && s.R == [32]byte{} && s.S == [32]byte{} }

type Bridge struct {
	Sh                 *Shapes
	PowerThreshold     *big.Int
	ValidatorTimestamp *big.Int
	LastCheckpoint     []byte
}

var (
	ErrMalformedSet      = errors.New("MalformedCurrentValidatorSet")
	ErrTimestamp         = errors.New("ValidatorTimestampMustIncrease")
	ErrThreshold         = errors.New("InvalidPowerThreshold")
	ErrSuppliedSet       = errors.New("SuppliedValidatorSetInvalid")
	ErrInvalidSignature  = errors.New("InvalidSignature")
	ErrInsufficientPower = errors.New("InsufficientVotingPower")
)

// ValsetHash = keccak256(abi.encode(Validator[]))
func (sh *Shapes) ValsetHash(set []Validator) []byte {
	rows := make([][]Val, len(set))
	for i, v := range set {
		row := make([]Val, 0, len(sh.ValidatorFields))
		for _, f := range sh.ValidatorFields {
			switch f[1] {
			case "addr":
				row = append(row, Val{Type: f[0], V: v.Addr})
			case "power":
				row = append(row, Val{Type: "uint256", V: v.Power})
			}
		}
		rows[i] = row
	}
	return Keccak256(Encode(Val{Type: "tuple[]", V: rows}))
}

func (sh *Shapes) CheckpointOf(threshold, timestamp *big.Int, valsetHash []byte) ([]byte, error) {
	enc, err := EncodeArgs(sh.Checkpoint, map[string]interface{}{"_powerThreshold": threshold, "_validatorTimestamp": timestamp, "_validatorSetHash": valsetHash})
	if err != nil {
		return nil, err
	}
	return Keccak256(enc), nil
}

func ecrecover(digest []byte, s Sig) []byte {
	if s.V != 27 && s.V != 28 {
		return nil
	}
	sig := make([]byte, 65)
	copy(sig[0:32], s.R[:])
	copy(sig[32:64], s.S[:])
	sig[64] = s.V - 27
	pub, err := crypto.Ecrecover(digest, sig)
	if err != nil || len(pub) != 65 {
		return nil
	}
	return Keccak256(pub[1:])[12:]
}

func verifySig(signer, digest []byte, s Sig) bool {
	d := sha256.Sum256(digest)
	return bytes.Equal(signer, ecrecover(d[:], s))
}

func checkValidatorSignatures(set []Validator, sigs []Sig, digest []byte, threshold *big.Int) error {
	cum := new(big.Int)
	for i := range set {
		if sigs[i].empty() {
			continue
		}
		if !verifySig(set[i].Addr, digest, sigs[i]) {
			return ErrInvalidSignature
		}
		cum.Add(cum, new(big.Int).SetUint64(set[i].Power))
		if cum.Cmp(threshold) >= 0 {
			break
		}
	}
	if cum.Cmp(threshold) < 0 {
		return ErrInsufficientPower
	}
	return nil
}

func (b *Bridge) UpdateValidatorSet(newHash []byte, newThreshold uint64, newTimestamp *big.Int, current []Validator, sigs []Sig) error {
	if len(current) != len(sigs) {
		return ErrMalformedSet
	}
	if newTimestamp.Cmp(b.ValidatorTimestamp) < 0 {
		return ErrTimestamp
	}
	if newThreshold == 0 {
		return ErrThreshold
	}
	cp, err := b.Sh.CheckpointOf(b.PowerThreshold, b.ValidatorTimestamp, b.Sh.ValsetHash(current))
	if err != nil {
		return err
	}
	if !bytes.Equal(cp, b.LastCheckpoint) {
		return ErrSuppliedSet
	}
	newCp, err := b.Sh.CheckpointOf(new(big.Int).SetUint64(newThreshold), newTimestamp, newHash)
	if err != nil {
		return err
	}
	if err := checkValidatorSignatures(current, sigs, newCp, b.PowerThreshold); err != nil {
		return err
	}
	b.LastCheckpoint = newCp
	b.PowerThreshold = new(big.Int).SetUint64(newThreshold)
	b.ValidatorTimestamp = newTimestamp
	return nil
}

// SigFromChain turns the 64-byte R||S the chain stores into the (v,r,s) a relayer would submit: v is chosen so
// that the signature recovers to signer (no v works => an unusable signature, returned empty=false).
func SigFromChain(sig64, digest, signer []byte) (Sig, bool) {
	if len(sig64) < 64 {
		return Sig{}, false
	}
	var s Sig
	copy(s.R[:], sig64[:32])
	copy(s.S[:], sig64[32:64])
	for _, v := range []uint8{27, 28} {
		s.V = v
		if verifySig(signer, digest, s) {
			return s, true
		}
	}
	return Sig{}, false
}
