package ref

import (
	"encoding/hex"
	"testing"
)

func TestKeccakVectors(t *testing.T) {
	for in, want := range map[string]string{
		"":    "c5d2460186f7233c927e7db2dcc703c0e500b653ca82273b7bfad8045d85a470",
		"abc": "4e03657aea45a94fc7d47ba826c8d667c0d1e6e33a64a036ec44f58fa12d6c45",
	} {
		if got := hex.EncodeToString(Keccak256([]byte(in))); got != want {
			t.Fatalf("keccak(%q)=%s want %s", in, got, want)
		}
	}
	long := make([]byte, 300)
	for i := range long {
		long[i] = byte(i)
	}
	_ = Keccak256(long)
}

func TestShapes(t *testing.T) {
	sh, err := LoadShapes("/repo")
	if err != nil {
		t.Fatal(err)
	}
	t.Logf("checkpoint %+v", sh.Checkpoint)
	t.Logf("attest %+v", sh.Attest)
	t.Logf("outer %+v inner %+v tuple %v validator %v", sh.QueryOuter, sh.QueryInner, sh.WithdrawTuple, sh.ValidatorFields)
	if len(sh.Checkpoint) != 4 || len(sh.Attest) != 9 || len(sh.QueryOuter) != 2 || len(sh.QueryInner) != 2 || len(sh.WithdrawTuple) != 4 {
		t.Fatal("unexpected shapes")
	}
}
