package ref

import (
	"encoding/hex"
	"fmt"
	"os"
	"path/filepath"
	"regexp"
	"strings"
)

// Arg is one argument of an abi.encode(...) call found in the Solidity sources, with its resolved type.
type Arg struct {
	Expr string // the expression as written, e.g. _attestData.report.timestamp
	Type string
	// Const holds the value when the expression is a bytes32 constant or a literal
	Const interface{}
}

// Shapes is what the contracts say about the byte layouts (read from the .sol files at run time, so that a
// change on either side breaks the comparison).
type Shapes struct {
	Consts          map[string][]byte
	Structs         map[string][][2]string // name -> [](type, field)
	ValidatorFields [][2]string
	Checkpoint      []Arg
	Attest          []Arg
	QueryOuter      []Arg // ("TRBBridge", bytes)
	QueryInner      []Arg // (false, _depositId)
	WithdrawTuple   []string
}

var (
	reConst    = regexp.MustCompile(`bytes32\s+constant\s+(\w+)\s*=\s*0x([0-9a-fA-F]{64})\s*;`)
	reStruct   = regexp.MustCompile(`struct\s+(\w+)\s*\{([^}]*)\}`)
	reStateVar = regexp.MustCompile(`(?m)^\s*(\w+)\s+public\s+(\w+)\s*;`)
)

func stripComments(s string) string {
	s = regexp.MustCompile(`(?s)/\*.*?\*/`).ReplaceAllString(s, "")
	return regexp.MustCompile(`//[^\n]*`).ReplaceAllString(s, "")
}

// funcBody returns the parameter list and body of function name.
func funcBody(src, name string) (params, body string, err error) {
	i := strings.Index(src, "function "+name+"(")
	if i < 0 {
		return "", "", fmt.Errorf("function %s not found", name)
	}
	j := i + len("function "+name+"(")
	depth := 1
	k := j
	for ; k < len(src) && depth > 0; k++ {
		switch src[k] {
		case '(':
			depth++
		case ')':
			depth--
		}
	}
	params = src[j : k-1]
	b := strings.Index(src[k:], "{")
	if b < 0 {
		return "", "", fmt.Errorf("function %s has no body", name)
	}
	s := k + b + 1
	depth = 1
	e := s
	for ; e < len(src) && depth > 0; e++ {
		switch src[e] {
		case '{':
			depth++
		case '}':
			depth--
		}
	}
	return params, src[s : e-1], nil
}

// callArgs returns the top-level arguments of the first occurrence of call( in s, starting at from.
func callArgs(s, call string, from int) (args []string, end int, err error) {
	i := strings.Index(s[from:], call+"(")
	if i < 0 {
		return nil, 0, fmt.Errorf("%s( not found", call)
	}
	j := from + i + len(call) + 1
	depth := 1
	start := j
	inStr := false
	for k := j; k < len(s); k++ {
		ch := s[k]
		if ch == '"' {
			inStr = !inStr
		}
		if inStr {
			continue
		}
		switch ch {
		case '(':
			depth++
		case ')':
			depth--
			if depth == 0 {
				args = append(args, strings.TrimSpace(s[start:k]))
				return args, k + 1, nil
			}
		case ',':
			if depth == 1 {
				args = append(args, strings.TrimSpace(s[start:k]))
				start = k + 1
			}
		}
	}
	return nil, 0, fmt.Errorf("unterminated %s(", call)
}

func parseParams(p string) map[string]string {
	out := map[string]string{}
	for _, part := range strings.Split(p, ",") {
		f := strings.Fields(strings.TrimSpace(part))
		if len(f) >= 2 {
			out[f[len(f)-1]] = f[0]
		}
	}
	return out
}

func (sh *Shapes) resolve(expr string, params, state map[string]string) (Arg, error) {
	a := Arg{Expr: expr}
	switch {
	case strings.HasPrefix(expr, `"`):
		a.Type, a.Const = "string", strings.Trim(expr, `"`)
		return a, nil
	case expr == "true" || expr == "false":
		a.Type, a.Const = "bool", expr == "true"
		return a, nil
	}
	if c, ok := sh.Consts[expr]; ok {
		a.Type, a.Const = "bytes32", c
		return a, nil
	}
	parts := strings.Split(expr, ".")
	t, ok := params[parts[0]]
	if !ok {
		t, ok = state[parts[0]]
	}
	if !ok {
		return a, fmt.Errorf("cannot resolve %q", expr)
	}
	t = strings.TrimSuffix(t, "[]")
	for _, f := range parts[1:] {
		fields, ok := sh.Structs[t]
		if !ok {
			return a, fmt.Errorf("%q: %s is not a struct", expr, t)
		}
		found := false
		for _, tf := range fields {
			if tf[1] == f {
				t, found = tf[0], true
			}
		}
		if !found {
			return a, fmt.Errorf("%q: no field %s", expr, f)
		}
	}
	a.Type = t
	return a, nil
}

// LoadShapes reads the three contract sources under repo/evm/contracts.
func LoadShapes(repo string) (*Shapes, error) {
	read := func(rel string) (string, error) {
		b, err := os.ReadFile(filepath.Join(repo, "evm", "contracts", rel))
		return stripComments(string(b)), err
	}
	consts, err := read("bridge/Constants.sol")
	if err != nil {
		return nil, err
	}
	blob, err := read("bridge/BlobstreamO.sol")
	if err != nil {
		return nil, err
	}
	tb, err := read("token-bridge/TokenBridge.sol")
	if err != nil {
		return nil, err
	}
	sh := &Shapes{Consts: map[string][]byte{}, Structs: map[string][][2]string{}}
	for _, m := range reConst.FindAllStringSubmatch(consts+blob, -1) {
		b, _ := hex.DecodeString(m[2])
		sh.Consts[m[1]] = b
	}
	for _, m := range reStruct.FindAllStringSubmatch(blob, -1) {
		var fields [][2]string
		for _, line := range strings.Split(m[2], ";") {
			f := strings.Fields(strings.TrimSpace(line))
			if len(f) == 2 {
				fields = append(fields, [2]string{f[0], f[1]})
			}
		}
		sh.Structs[m[1]] = fields
	}
	sh.ValidatorFields = sh.Structs["Validator"]
	if len(sh.ValidatorFields) == 0 {
		return nil, fmt.Errorf("struct Validator not found")
	}
	state := map[string]string{}
	for _, m := range reStateVar.FindAllStringSubmatch(blob, -1) {
		state[m[2]] = m[1]
	}
	// checkpoint
	p, body, err := funcBody(blob, "_domainSeparateValidatorSetHash")
	if err != nil {
		return nil, err
	}
	args, _, err := callArgs(body, "abi.encode", 0)
	if err != nil {
		return nil, err
	}
	for _, e := range args {
		a, err := sh.resolve(e, parseParams(p), state)
		if err != nil {
			return nil, err
		}
		sh.Checkpoint = append(sh.Checkpoint, a)
	}
	// attestation digest: the second abi.encode in verifyOracleData (the first hashes the validator set)
	p, body, err = funcBody(blob, "verifyOracleData")
	if err != nil {
		return nil, err
	}
	_, end, err := callArgs(body, "abi.encode", 0)
	if err != nil {
		return nil, err
	}
	args, _, err = callArgs(body, "abi.encode", end)
	if err != nil {
		return nil, err
	}
	for _, e := range args {
		a, err := sh.resolve(e, parseParams(p), state)
		if err != nil {
			return nil, err
		}
		sh.Attest = append(sh.Attest, a)
	}
	// token bridge: query id and the decoded report value
	p, body, err = funcBody(tb, "withdrawFromLayer")
	if err != nil {
		return nil, err
	}
	outer, _, err := callArgs(body, "abi.encode", 0)
	if err != nil {
		return nil, err
	}
	for _, e := range outer {
		if strings.HasPrefix(e, "abi.encode(") {
			inner, _, err := callArgs(e, "abi.encode", 0)
			if err != nil {
				return nil, err
			}
			for _, ie := range inner {
				a, err := sh.resolve(ie, parseParams(p), nil)
				if err != nil {
					return nil, err
				}
				sh.QueryInner = append(sh.QueryInner, a)
			}
			sh.QueryOuter = append(sh.QueryOuter, Arg{Expr: e, Type: "bytes"})
			continue
		}
		a, err := sh.resolve(e, parseParams(p), nil)
		if err != nil {
			return nil, err
		}
		sh.QueryOuter = append(sh.QueryOuter, a)
	}
	dec, _, err := callArgs(body, "abi.decode", 0)
	if err != nil || len(dec) != 2 {
		return nil, fmt.Errorf("abi.decode in withdrawFromLayer: %v", err)
	}
	for _, t := range strings.Split(strings.Trim(dec[1], "() "), ",") {
		sh.WithdrawTuple = append(sh.WithdrawTuple, strings.TrimSpace(t))
	}
	return sh, nil
}

// EncodeArgs encodes the call as the contract would, taking non-constant values from vals (keyed by expression).
func EncodeArgs(args []Arg, vals map[string]interface{}) ([]byte, error) {
	var vs []Val
	for _, a := range args {
		v := a.Const
		if v == nil {
			x, ok := vals[a.Expr]
			if !ok {
				return nil, fmt.Errorf("no value for %s", a.Expr)
			}
			v = x
		}
		t := a.Type
		if strings.HasPrefix(t, "uint") {
			t = "uint256" // abi.encode pads every uintN to a word
		}
		vs = append(vs, Val{Type: t, V: v})
	}
	return Encode(vs...), nil
}
