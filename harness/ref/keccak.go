// Package ref holds the independent references the bridge checks compare the chain against:
// an own Keccak-256, an own ABI encoder and a model of the EVM contracts written from the Solidity sources.
// Nothing here imports go-ethereum's abi or keccak code.
package ref

import "encoding/binary"

var rc = [24]uint64{
	0x0000000000000001, 0x0000000000008082, 0x800000000000808A, 0x8000000080008000, 0x000000000000808B, 0x0000000080000001,
	0x8000000080008081, 0x8000000000008009, 0x000000000000008A, 0x0000000000000088, 0x0000000080008009, 0x000000008000000A,
	0x000000008000808B, 0x800000000000008B, 0x8000000000008089, 0x8000000000008003, 0x8000000000008002, 0x8000000000000080,
	0x000000000000800A, 0x800000008000000A, 0x8000000080008081, 0x8000000000008080, 0x0000000080000001, 0x8000000080008008,
}

var rotc = [24]uint{1, 3, 6, 10, 15, 21, 28, 36, 45, 55, 2, 14, 27, 41, 56, 8, 25, 43, 62, 18, 39, 61, 20, 44}
var piln = [24]int{10, 7, 11, 17, 18, 3, 5, 16, 8, 21, 24, 4, 15, 23, 19, 13, 12, 2, 20, 14, 22, 9, 6, 1}

func keccakF(st *[25]uint64) {
	var bc [5]uint64
	for round := 0; round < 24; round++ {
		for i := 0; i < 5; i++ {
			bc[i] = st[i] ^ st[i+5] ^ st[i+10] ^ st[i+15] ^ st[i+20]
		}
		for i := 0; i < 5; i++ {
			t := bc[(i+4)%5] ^ (bc[(i+1)%5]<<1 | bc[(i+1)%5]>>63)
			for j := 0; j < 25; j += 5 {
				st[j+i] ^= t
			}
		}
		t := st[1]
		for i := 0; i < 24; i++ {
			j := piln[i]
			b := st[j]
			st[j] = t<<rotc[i] | t>>(64-rotc[i])
			t = b
		}
		for j := 0; j < 25; j += 5 {
			for i := 0; i < 5; i++ {
				bc[i] = st[j+i]
			}
			for i := 0; i < 5; i++ {
				st[j+i] ^= (^bc[(i+1)%5]) & bc[(i+2)%5]
			}
		}
		st[0] ^= rc[round]
	}
}

// Keccak256 is the original Keccak (padding 0x01), as used by the EVM.
func Keccak256(data []byte) []byte {
	const rate = 136
	var st [25]uint64
	buf := make([]byte, 0, len(data)+rate)
	buf = append(buf, data...)
	buf = append(buf, 0x01)
	for len(buf)%rate != 0 {
		buf = append(buf, 0)
	}
	buf[len(buf)-1] |= 0x80
	for off := 0; off < len(buf); off += rate {
		for i := 0; i < rate/8; i++ {
			st[i] ^= binary.LittleEndian.Uint64(buf[off+8*i:])
		}
		keccakF(&st)
	}
	out := make([]byte, 32)
	for i := 0; i < 4; i++ {
		binary.LittleEndian.PutUint64(out[8*i:], st[i])
	}
	return out
}
